#!/usr/bin/env python3
"""Engine self-test (DESIGN 3.8): every text mutant in selftest/mutants must fail a named obligation (or be refused as a
tool limit) when the listed functions are re-verified on a scratch copy; the unmutated copy must verify.  A surviving
mutant is a checker error.  Scratch copies live under /var/tmp and are removed."""
import sys, os, shutil, subprocess, tempfile, runpy, re, json, glob
from concurrent.futures import ThreadPoolExecutor
V = os.path.dirname(os.path.dirname(os.path.abspath(__file__)))
SRC = os.environ.get('MOSROMGR_SRC', '/repo')


def verify(srcdir, funcs):
    env = dict(os.environ, MOSROMGR_SRC=srcdir, PYTHONHASHSEED='0')
    out = subprocess.run(['python3-vt', '-m', 'pyvc.run1'] + funcs, cwd=V, env=env, capture_output=True, text=True)
    bad = []
    for line in (out.stdout + out.stderr).splitlines():
        m = re.search(r' (\d+)/(\d+) ', line)
        if m and m.group(1) != m.group(2):
            bad.append(line.strip().split('  ')[0])
        if 'TOOL-LIMIT' in line or 'ENGINE-ERROR' in line:
            bad.append(line.strip()[:120])
    return bad


def one(path):
    m = runpy.run_path(path)
    d = tempfile.mkdtemp(prefix='selftest.', dir='/var/tmp')
    try:
        shutil.copytree(os.path.join(SRC, 'mosromgr'), os.path.join(d, 'mosromgr'))
        p = os.path.join(d, 'mosromgr', m['FILE'])
        s = open(p).read()
        s2 = m['mutate'](s)
        if s2 == s:
            return os.path.basename(path), 'NOT-APPLICABLE', ['mutation does not apply to the current source']
        open(p, 'w').write(s2)
        bad = verify(d, m['FUNCS'])
        return os.path.basename(path), ('KILLED' if bad else 'SURVIVED'), bad[:3]
    finally:
        shutil.rmtree(d)


def main():
    paths = sorted(glob.glob(os.path.join(V, 'selftest', 'mutants', 'm*.py')))
    with ThreadPoolExecutor(8) as ex:
        res = list(ex.map(one, paths))
    surv = [r for r in res if r[1] == 'SURVIVED']
    for name, verdict, bad in res:
        print('%-8s %-14s %s' % (name, verdict, '; '.join(bad)[:150]))
    print('%d mutants, %d killed, %d survived, %d not applicable' % (len(res), sum(r[1] == 'KILLED' for r in res), len(surv),
                                                                     sum(r[1] == 'NOT-APPLICABLE' for r in res)))
    json.dump([{'mutant': r[0], 'verdict': r[1], 'failed': r[2]} for r in res], open(os.path.join(V, 'selftest', 'last_result.json'), 'w'), indent=1)
    return 1 if surv else 0


if __name__ == '__main__':
    sys.exit(main())
