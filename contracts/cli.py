"""C19: the command line (CLI.__call__, detect_or_inspect, detect_file, do_merge).
argparse wiring (option string -> namespace attribute) is not modelled: it is enumerated by the bounded real-code check."""
import z3
from pyvc import logic as L
from pyvc.logic import Node, Str, null, none_s, text
from pyvc.values import *
from pyvc.state import State
from pyvc.contracts import contract, Contract, Case, LoopSpec, REGISTRY
from .common import A, Imp, ro_inv, ownership
from .assumed_lib import wellformed, parse_root, file_text, file_readable
from .classify import TABLE, EA_TABLE, present, class_clauses
from . import accessors as _acc
from . import collection as _col

schema_shaped = L.mkfun('schema_shaped', Node, L.B)     # the document is a schema-shaped message of its class


# ---- inspect(): caller-facing view for the CLI (the bodies are proved in accessors.py under the concrete Shape)
def _inspect_cases(self, cx):
    def eff(st):
        st.out.append(('inspect', [cx.a['self']], 0))
    return [Case('printed', ret=NONE, effect=eff)]


def _inspect_caller_requires(self, cx):
    mroot = cx.st.fields(cx.a['self'])['_xml'].t
    return [('message_is_schema_shaped', schema_shaped(mroot))]


for _q, _c in list(REGISTRY.items()):
    if isinstance(_c, _acc.Inspect):
        _c.opaque = True
        _c.cases = _inspect_cases.__get__(_c)
        _c.caller_requires = _inspect_caller_requires.__get__(_c)


@contract('mosromgr.mostypes.RunningOrder.inspect')
class ROInspect(Contract):
    """caller-facing only for the CLI; prints the slug and one line per story"""
    props = ()
    body_proved = False
    cases = _inspect_cases
    caller_requires = _inspect_caller_requires


# ---- assumed library pieces
@contract('lib.argparse.parse_args')
class ParseArgs(Contract):
    """A-ARGPARSE: returns a namespace whose func is one of the commands, or exits (SystemExit) on a usage error"""
    assumed = True
    props = ()

    def cases(self, cx):
        cx.E.assumed_used.add('A-ARGPARSE')
        ns = SOpaque(None, 'namespace')
        ns.fields = {'func': SFunc(None, builtin='cli.command'), 'cmd': NONE}
        return [Case('parsed', ret=ns), Case('usage_error', exc='SystemExit')]


@contract('lib.cli.command')
class AnyCommand(Contract):
    """abstract sub-command: returns a status (None or an int) or raises some Exception"""
    assumed = True
    props = ()

    def cases(self, cx):
        rv = SInt(cx.W.fresh('status', L.I))
        rv.from_command = True
        return [Case('returned', ret=rv), Case('failed', exc='Exception'), Case('failed_os', exc='OSError'),
                Case('failed_mos', exc='MosMergeError')]


def cli_obj(E, st, ns):
    o = SObj(E.repo.cls('CLI'), st.new_obj(None))
    st.objs[o.oid] = {'_args': ns, '_commands': SOpaque(None, 'commands'), '_config': NONE, '_parser': SOpaque(None, 'parser')}
    return o


@contract('mosromgr.cli.CLI.__call__')
class CliCall(Contract):
    props = ('C19',)

    def entry(self, E):
        st = State(L.Heap(0, 0), z3.IntVal(0))
        return st, {'self': cli_obj(E, st, NONE), 'args': NONE}

    def ensures(self, cx, ex):
        v = ex.value
        failed = any(t.startswith('except:') for t in ex.st.trace)
        if failed:
            return [('C19.any_error_gives_a_message_on_stderr_and_status_2',
                     A(z3.BoolVal(isinstance(v, SInt) and len(ex.st.err) == 1), v.t == 2) if isinstance(v, SInt) else z3.BoolVal(False))]
        return [('C19.status_is_the_status_of_the_command', z3.BoolVal(getattr(v, 'from_command', False) and ex.st.err == []))]

    def raises(self, cx, ex):
        return [('C19.only_argparse_exits[%s]' % ex.value.name(), z3.BoolVal(ex.value.name() == 'SystemExit'))]


def namespace(**fields):
    ns = SOpaque(None, 'namespace')
    ns.fields = dict(fields)
    return ns


class FilesLoop(LoopSpec):
    """per file: either one 'Invalid' line on stderr, or the detect line (and, for inspect, the outline and a blank line)"""

    def __init__(self, owner, s3=False):
        self.o = owner
        self.s3 = s3

    def iteration(self, cx, lp):
        out, err = lp.st.out, lp.st.err
        fk = lp.cur
        inspect = cx.a['inspect']
        invalid = any(t in ('except:UnknownMosFileType', 'except:MosInvalidXML', 'except:OSError') for t in lp.st.trace[len(lp.head.trace):])
        if self.s3:
            from .classify import s3_content
            ns = cx.st.fields(cx.a['self'])['_args']
            content = s3_content(ns.fields['bucket_name'].t, fk.t)
            readable = z3.BoolVal(True)
        else:
            content = file_text(fk.t)
            readable = file_readable(fk.t)
        root = parse_root(content)
        if invalid:
            ok = len(err) == 1 and out == [] and any(isinstance(p, SStr) and fk in getattr(p, 'parts', []) for p in err[0][1])
            return [('C19.a_bad_or_unreadable_file_is_reported_invalid_and_the_scan_continues',
                     A(z3.BoolVal(ok), z3.Not(A(readable, wellformed(content), self.o.classifiable(cx, root)))))]
        if not out or out[0][0] != 'print' or err:
            return [('C19.each_classified_file_gets_its_detect_line', z3.BoolVal(False))]
        line = out[0][1][0]
        parts = getattr(line, 'parts', [])
        names_file = any(p is fk or (isinstance(p, SStr) and p.t.eq(fk.t)) for p in parts)
        cname = [p.py for p in parts if isinstance(p, SStr) and p.py is not None]
        probe = SObj(cx.E.repo.cls(cname[0]), 0) if cname and cname[0] in cx.E.repo.by_simple_class else None
        completed_txt = '(completed)' in ''.join(x for x in getattr(line, 'fmt', []) if isinstance(x, str))
        H = cx.H
        completed = H.find(root, cx.W.lit('mosromgrmeta')) != null
        clauses = [('C19.detect_line_names_the_file_and_the_class_the_library_assigns',
                    A(z3.BoolVal(names_file and probe is not None), readable, wellformed(content),
                      class_clauses(cx.W, H, root, probe)[0][1] if probe is not None else z3.BoolVal(False))),
                   ('C19.completed_is_shown_exactly_for_a_completed_running_order',
                    z3.BoolVal(completed_txt) == A(z3.BoolVal(cname[:1] in (['RunningOrder'], ['RunningOrderReplace'])), completed))]
        rest = out[1:]
        if isinstance(inspect, SBool) and z3.is_true(z3.simplify(inspect.t)):
            ok = len(rest) == 2 and rest[0][0] == 'inspect' and rest[1][0] == 'print'
            clauses.append(('C19.inspect_prints_the_outline_of_every_classified_file', z3.BoolVal(ok)))
        else:
            clauses.append(('C19.detect_prints_one_line_per_file', z3.BoolVal(rest == [])))
        return clauses


@contract('mosromgr.cli.CLI.detect_or_inspect')
class DetectOrInspect(Contract):
    props = ('C19',)

    def entry(self, E):
        W = E.W
        out = []
        for inspect in (False, True):
            # (a) a list of files
            st = State(L.Heap(0, 0), z3.IntVal(0))
            n = W.fresh('n_files', L.I)
            st.assume(n >= 1)
            f = W.fresh_fun('file', L.I, Str)
            j = z3.Int('j!fl')
            st.assume(z3.ForAll([j], f(j) != none_s, patterns=[f(j)]))
            files = SList(n, lambda k, f=f: SStr(f(k)), desc='files')
            files.elemkind = 'str'
            ns = namespace(files=files, bucket_name=NONE, prefix=NONE, suffix=NONE, key=NONE, cmd=E.lit('inspect' if inspect else 'detect'))
            out.append((st, {'self': cli_obj(E, st, ns), 'inspect': SBool(inspect)}))
        # (a') keys of a bucket: by prefix (with / without suffix) or a single key
        for how in ('prefix', 'prefix+suffix'):      # the single-key form runs the same loop body over a one-element list
            st = State(L.Heap(0, 0), z3.IntVal(0))
            b = SStr(W.fresh('bucket', Str))
            st.assume(L.s_truthy(b.t))
            pfx = SStr(W.fresh('prefix', Str)) if how != 'key' else NONE
            sfx = SStr(W.fresh('suffix', Str)) if how == 'prefix+suffix' else NONE
            key = SStr(W.fresh('key', Str)) if how == 'key' else NONE
            for v in (pfx, sfx, key):
                if isinstance(v, SStr):
                    st.assume(L.s_truthy(v.t))
            ns = namespace(files=NONE, bucket_name=b, prefix=pfx, suffix=sfx, key=key, cmd=E.lit('detect'))
            out.append((st, {'self': cli_obj(E, st, ns), 'inspect': SBool(how == 'prefix')}))
        # (b) nothing given -> usage error
        st = State(L.Heap(0, 0), z3.IntVal(0))
        ns = namespace(files=NONE, bucket_name=NONE, prefix=NONE, suffix=NONE, key=NONE, cmd=E.lit('detect'))
        out.append((st, {'self': cli_obj(E, st, ns), 'inspect': SBool(False)}))
        # (c) bucket without prefix or key -> usage error
        st = State(L.Heap(0, 0), z3.IntVal(0))
        b = SStr(W.fresh('bucket', Str))
        st.assume(L.s_truthy(b.t))
        ns = namespace(files=NONE, bucket_name=b, prefix=NONE, suffix=NONE, key=NONE, cmd=E.lit('detect'))
        out.append((st, {'self': cli_obj(E, st, ns), 'inspect': SBool(False)}))
        return out

    def classifiable(self, cx, root):
        """C08: some message element is present (and a roElementAction has a listed shape)"""
        from .classify import ea_recognised
        alts = []
        for tag, cls in TABLE.items():
            alts.append(present(cx.W, cx.H, root, tag) if cls else A(present(cx.W, cx.H, root, tag), ea_recognised(cx.W, cx.H, root)))
        return z3.Or(*alts)

    def requires(self, cx):
        ns = cx.st.fields(cx.a['self'])['_args']
        files = ns.fields['files']
        if isinstance(files, SNone):
            if isinstance(ns.fields['bucket_name'], SNone):
                return []
            from .classify import s3_content
            k = z3.Const('k!s3', Str)
            c = s3_content(ns.fields['bucket_name'].t, k)
            return [('classifiable_objects_hold_schema_shaped_messages', z3.ForAll([k], schema_shaped(parse_root(c)), patterns=[c]))]
        j = z3.Int('j!rq')
        el = files.elem(j).t
        return [('classifiable_files_hold_schema_shaped_messages',
                 z3.ForAll([j], Imp(A(0 <= j, j < files.length), schema_shaped(parse_root(file_text(el)))), patterns=[el]))]

    def loop(self, ordinal):
        if ordinal == 0:
            return FilesLoop(self)
        if ordinal == 1:
            return FilesLoop(self, s3=True)

    def ensures(self, cx, ex):
        ns = cx.st.fields(cx.a['self'])['_args']
        v = ex.value
        usage_error = isinstance(ns.fields['files'], SNone) and (isinstance(ns.fields['bucket_name'], SNone) or
                                                                  (isinstance(ns.fields['prefix'], SNone) and isinstance(ns.fields['key'], SNone)))
        if not usage_error and isinstance(ns.fields['files'], SNone):
            lp = ex.loop(1)
            return [('C19.every_listed_key_is_processed_in_order', z3.BoolVal(lp is not None and not getattr(lp, 'broke', False) and isinstance(v, SNone)))]
        if isinstance(ns.fields['files'], SNone):
            return [('C19.usage_error_gives_a_message_on_stderr_and_status_2',
                     A(z3.BoolVal(isinstance(v, SInt) and len(ex.st.err) >= 1), v.t == 2) if isinstance(v, SInt) else z3.BoolVal(False))]
        lp = ex.loop(0)
        return [('C19.every_listed_file_is_processed_in_order', z3.BoolVal(lp is not None and not getattr(lp, 'broke', False) and isinstance(v, SNone)))]

    def raises(self, cx, ex):
        return [('C19.one_bad_file_never_aborts_the_scan[%s]' % ex.value.name(), z3.BoolVal(False))]


# ---- merge command
def _from_many_cases(self, cx):
    E, W = cx.E, cx.W
    root = W.fresh('mc_root', Node)

    def log(st):
        src = cx.a[self.arg] if self.arg else {k: cx.a.get(k) for k in ('bucket_name', 'prefix', 'suffix')}
        st.addlog.append(('from_many', self.arg, src, cx.a['allow_incomplete']))

    def eff(st):
        log(st)
        for n, f in ro_inv(W, st.heap, root) + ownership(st.heap):
            st.assume(f)
    from .collection import reader_obj
    ro = SObj(E.repo.cls('RunningOrder'), State._oid[0] + 1)
    State._oid[0] += 2
    ro.init_fields = {'_xml': SNode(root), '_base_tag': NONE}
    n = W.fresh('n_readers', L.I)
    mc = SObj(E.repo.cls('MosCollection'), State._oid[0], init_fields={'_ro': ro, '_mos_readers': SList(n, lambda k: reader_obj(E, k), desc='readers')})
    return [Case('built', ret=mc, assume=[n >= 0], effect=eff), Case('invalid', exc='InvalidMosCollection', effect=log),
            Case('unreadable_input', exc='OSError', effect=log), Case('bad_input', exc='MosInvalidXML', effect=log)]


_col.FromManyContract.cases = _from_many_cases


def _merge_cases(self, cx):
    me = cx.a['self']
    W = cx.W
    strict = cx.a['strict']

    def log(st):
        st.addlog.append(('merge', strict))

    def eff(st):
        log(st)
        root = st.fields(st.fields(me)['_ro'])['_xml'].t
        H2 = _col.havoc_heap(st, W)
        for n, f in ro_inv(W, H2, root):
            st.assume(f)
    return [Case('merged', ret=NONE, effect=eff), Case('merge_error', exc='MosMergeError', assume=[strict.t], effect=log)]


def _merge_caller_requires(self, cx):
    return []


_col.CollectionMerge.cases = _merge_cases
_col.CollectionMerge.caller_requires = _merge_caller_requires


@contract('mosromgr.cli.CLI.do_merge')
class DoMerge(Contract):
    props = ('C19',)

    def entry(self, E):
        W = E.W
        out = []
        for to_file in (False, True):
            st = State(L.Heap(0, 0), z3.IntVal(0))
            n = W.fresh('n_files', L.I)
            st.assume(n >= 1)
            f = W.fresh_fun('file', L.I, Str)
            files = SList(n, lambda k, f=f: SStr(f(k)), desc='files')
            files.elemkind = 'str'
            of = SStr(W.fresh('outfile', Str)) if to_file else NONE
            if to_file:
                st.assume(L.s_truthy(of.t))
            ns = namespace(files=files, bucket_name=NONE, prefix=NONE, suffix=NONE, outfile=of, cmd=NONE,
                           incomplete=SBool(W.fresh('incomplete', L.B)), non_strict=SBool(W.fresh('non_strict', L.B)))
            out.append((st, {'self': cli_obj(E, st, ns)}))
        for with_suffix in (False, True):
            st = State(L.Heap(0, 0), z3.IntVal(0))
            b, pfx = SStr(W.fresh('bucket', Str)), SStr(W.fresh('prefix', Str))
            sfx = SStr(W.fresh('suffix', Str)) if with_suffix else NONE
            st.assume(L.s_truthy(b.t))
            if with_suffix:
                st.assume(L.s_truthy(sfx.t))
            ns = namespace(files=NONE, bucket_name=b, prefix=pfx, suffix=sfx, outfile=NONE, cmd=NONE,
                           incomplete=SBool(W.fresh('incomplete', L.B)), non_strict=SBool(W.fresh('non_strict', L.B)))
            out.append((st, {'self': cli_obj(E, st, ns)}))
        st = State(L.Heap(0, 0), z3.IntVal(0))
        ns = namespace(files=NONE, bucket_name=NONE, prefix=NONE, suffix=NONE, outfile=NONE, cmd=NONE, incomplete=SBool(False), non_strict=SBool(False))
        out.append((st, {'self': cli_obj(E, st, ns)}))
        return out

    def requires(self, cx):
        from .classify import schema_doc
        ns = cx.st.fields(cx.a['self'])['_args']
        xs = ns.fields['files']
        if isinstance(xs, SNone):
            if isinstance(ns.fields['bucket_name'], SNone):
                return []
            from .classify import s3_content
            k = z3.Const('k!s3', Str)
            c = s3_content(ns.fields['bucket_name'].t, k)
            return [('stored_objects_are_schema_shaped_messages_when_well_formed',
                     z3.ForAll([k], Imp(wellformed(c), schema_doc(cx.W, cx.H, parse_root(c))), patterns=[c]))]
        j = z3.Int('j!dm')
        t = xs.elem(j).t
        return [('files_hold_schema_shaped_messages_when_well_formed',
                 z3.ForAll([j], Imp(A(0 <= j, j < xs.length, file_readable(t), wellformed(file_text(t))),
                                    schema_doc(cx.W, cx.H, parse_root(file_text(t)))), patterns=[t]))]

    def ensures(self, cx, ex):
        ns = cx.st.fields(cx.a['self'])['_args']
        v = ex.value
        if isinstance(ns.fields['files'], SNone) and isinstance(ns.fields['bucket_name'], SNone):
            return [('C19.usage_error_gives_a_message_on_stderr_and_status_2',
                     A(z3.BoolVal(isinstance(v, SInt) and len(ex.st.err) >= 1), v.t == 2) if isinstance(v, SInt) else z3.BoolVal(False))]
        log = ex.st.addlog
        built = [a for a in log if a[0] == 'from_many']
        merged = [a for a in log if a[0] == 'merge']
        invalid = any(t == 'except:InvalidMosCollection' for t in ex.st.trace)
        if invalid:
            return [('C19.invalid_collection_gives_a_message_on_stderr_and_status_2',
                     A(z3.BoolVal(isinstance(v, SInt) and len(ex.st.err) == 1 and not merged), v.t == 2) if isinstance(v, SInt) else z3.BoolVal(False))]
        if len(built) == 1 and isinstance(built[0][2], dict):
            src = built[0][2]
            same_src = src['bucket_name'] is ns.fields['bucket_name'] and src['prefix'] is ns.fields['prefix'] and \
                (src['suffix'] is ns.fields['suffix'] or (isinstance(ns.fields['suffix'], SNone) and getattr(src['suffix'], 'py', None) == '.mos.xml'))
        else:
            same_src = len(built) == 1 and built[0][2] is ns.fields['files']
        out = [('C19.collection_is_built_from_the_given_source_with_incomplete_as_given',
                A(z3.BoolVal(bool(same_src)), built[0][3].t == ns.fields['incomplete'].t) if len(built) == 1 else z3.BoolVal(False))]
        out.append(('C19.merge_is_strict_unless_non_strict_was_given',
                    A(z3.BoolVal(len(merged) == 1), merged[0][1].t == z3.Not(ns.fields['non_strict'].t)) if len(merged) == 1 else z3.BoolVal(False)))
        # what is written: exactly the serialisation of the merged collection's running order at the end
        of = ns.fields['outfile']
        prints = [o for o in ex.st.out if o[0] == 'print']
        writes = ex.st.files
        ser = None
        if isinstance(of, SNone):
            ok = len(prints) == 1 and len(prints[0][1]) == 1 and not writes
            ser = prints[0][1][0] if ok else None
        else:
            ok = len(writes) == 1 and writes[0][1] is of
            ser = writes[0][2] if ok else None
        name = ser.t.decl().name() if isinstance(ser, SStr) and z3.is_app(ser.t) else ''
        is_final = name.startswith('str_replace') and ser.t.arg(0).decl().name() == 'xml_tostring_%d_%d' % (ex.H.kv, ex.H.tv)
        out.append(('C19.writes_exactly_the_serialisation_of_the_merged_running_order', z3.BoolVal(bool(ok and is_final and isinstance(v, SNone)))))
        return out

    def raises(self, cx, ex):
        # errors other than InvalidMosCollection propagate to CLI.__call__, which maps them to status 2
        return [('C19.only_input_and_merge_errors_propagate[%s]' % ex.value.name(),
                 z3.BoolVal(exc_isinstance(ex.value.cls, 'MosRoMgrException') or ex.value.name() == 'OSError'))]
