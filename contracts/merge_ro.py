"""Contracts of the running-order level merges: roReadyToAir, roDelete, roReplace (C03, C04, C07, C13, C14)."""
import z3
from pyvc import logic as L
from pyvc.logic import Node, Str, null, none_s, text, is_msg, is_int, is_dt, born, orig, cp, newnode, forall_nodes, forall_ints
from pyvc.values import *
from pyvc.contracts import contract, Contract, Case, LoopSpec
from .common import *
from pyvc.state import State
from .merge_story import list_same


def all_preexisting_lists_same(H0, H1, except_parent=None):
    return forall_nodes(1, lambda q: Imp(A(born(q) == 0, q != except_parent) if except_parent is not None else born(q) == 0,
                                         list_same(H0, H1, q)))


@contract('mosromgr.mostypes.ReadyToAir.merge')
class ReadyToAirMerge(MergeContract):
    props = ('C03', 'C05', 'C06', 'C07', 'C12', 'C13', 'C14', 'C15')
    cls_name = 'ReadyToAir'
    base_tag_name = 'roReadyToAir'
    frame = 'none'

    def ensures(self, cx, ex):
        out = self.std_normal(cx, ex)
        out.append(('C03.nothing_changes', z3.BoolVal(not [w for w in ex.st.writes if w[0] != 'alloc'])))
        out.append(('C06.no_warning', z3.BoolVal(ex.st.warns == [])))
        return out


@contract('mosromgr.mostypes.RunningOrderEnd.merge')
class RunningOrderEndMerge(MergeContract):
    props = ('C03', 'C04', 'C05', 'C06', 'C07', 'C12', 'C13', 'C14', 'C15')
    cls_name = 'RunningOrderEnd'
    base_tag_name = 'roDelete'
    frame = 'root'

    def requires(self, cx):
        root, mroot = self.roots(cx)
        return super().requires(cx) + [('not_completed', cx.H.find(root, cx.W.lit('mosromgrmeta')) == null)]

    def ensures(self, cx, ex):
        root, mroot = self.roots(cx)
        H0, H1, lit = cx.H, ex.H, cx.W.lit
        out = self.std_normal(cx, ex)
        meta = H1.find(root, lit('mosromgrmeta'))
        rec = cp(cx.clock + 2, self.mb(cx))
        out.append(('C07.marked_completed', meta != null))
        out.append(('C07+C04.record_holds_a_copy_of_the_roDelete',
                    A(born(meta) > 0, H1.len(meta) == 1, H1.mem(meta, rec), H1.tag(rec) == lit('roDelete'))))
        out.append(('C07+C14.exactly_one_completion_record',
                    forall_nodes(1, lambda x: Imp(A(H1.mem(root, x), H1.tag(x) == lit('mosromgrmeta')), x == meta))))
        out.append(('C07+C03.running_order_content_unchanged', all_preexisting_lists_same(H0, H1, except_parent=root)))
        out.append(('C07+C03.root_keeps_its_children_in_order',
                    forall_nodes(1, lambda z: Imp(H0.mem(root, z), A(H1.mem(root, z), H1.pos(root, z) == H0.pos(root, z))))))
        out.append(('C06.no_warning', z3.BoolVal(ex.st.warns == [])))
        return out


def ro_content_shape(W, H, base, name):
    """the carried <roReplace> has the shape of a running order body"""
    lit = W.lit
    return [
        ('%s.roID' % name, H.find(base, lit('roID')) != null),
        ('%s.stories_have_storyID' % name,
         forall_nodes(1, lambda s: Imp(A(H.mem(base, s), H.tag(s) == lit('story')), H.find(s, lit('storyID')) != null),
                      patterns=lambda s: [H.mem(base, s)])),
        ('%s.items_have_itemID' % name,
         forall_nodes(2, lambda s, i: Imp(A(H.mem(base, s), H.tag(s) == lit('story'), H.mem(s, i), H.tag(i) == lit('item')),
                                          H.find(i, lit('itemID')) != null),
                      patterns=lambda s, i: [z3.MultiPattern(H.mem(base, s), H.mem(s, i))])),
        ('%s.story_durations_numeric' % name,
         forall_nodes(1, lambda s: Imp(A(H.mem(base, s), H.tag(s) == lit('story')), timing_ok(W, H, s)),
                      patterns=lambda s: [H.mem(base, s)])),
        ('%s.roEdStart_parseable' % name,
         forall_nodes(1, lambda x: Imp(A(H.mem(base, x), H.tag(x) == lit('roEdStart'), text(x) != none_s), is_dt(text(x))),
                      patterns=lambda x: [H.mem(base, x)])),
    ]


@contract('mosromgr.mostypes.RunningOrderReplace.merge')
class RunningOrderReplaceMerge(MergeContract):
    # C01 / C02 hold "from every state reached by a prior merge history": roReplace is the one merge that swaps the running-order
    # element, so the clause about the state of the running-order object (no detached element kept) is checked for them here
    props = ('C01', 'C02', 'C03', 'C04', 'C05', 'C06', 'C07', 'C12', 'C13', 'C14', 'C15')
    cls_name = 'RunningOrderReplace'
    base_tag_name = 'roReplace'
    frame = 'root'

    def shape(self, cx):
        return ro_content_shape(cx.W, cx.H, self.mb(cx), 'Shape')

    def ensures(self, cx, ex):
        root, mroot = self.roots(cx)
        H0, H1, lit = cx.H, ex.H, cx.W.lit
        V0 = self.V0(cx)
        out = self.std_normal(cx, ex)
        rr = cp(cx.clock + 1, self.mb(cx))
        out.append(('C04.running_order_content_is_a_copy_of_the_roReplace',
                    A(H1.find(root, lit('roCreate')) == rr, z3.Not(H1.mem(root, V0.base)))))
        out.append(('C04+C14.placed_where_the_old_roCreate_was', H1.pos(root, rr) == H0.pos(root, V0.base)))
        out.append(('C03+C14.envelope_otherwise_unchanged',
                    forall_nodes(1, lambda z: Imp(A(H0.mem(root, z), z != V0.base), A(H1.mem(root, z), H1.pos(root, z) == H0.pos(root, z))))))
        out.append(('C14.roID_kept_when_addressed_to_this_running_order',
                    Imp(text(H0.find(self.mb(cx), lit('roID'))) == text(H0.find(V0.base, lit('roID'))),
                        text(H1.find(H1.find(root, lit('roCreate')), lit('roID'))) == text(H0.find(V0.base, lit('roID'))))))
        out.append(('C07.no_spurious_completion', H1.find(root, lit('mosromgrmeta')) == H0.find(root, lit('mosromgrmeta'))))
        out.append(('C06.no_warning', z3.BoolVal(ex.st.warns == [])))
        return out


# ------------------------------------------------------------------ roMetadataReplace
MEM = 'mosExternalMetadata'


def key_match(W, H, child, source):
    """child is what the carried element source replaces: same tag and, for mosExternalMetadata, same mosSchema"""
    lit = W.lit
    cs, ss = H.find(child, lit('mosSchema')), H.find(source, lit('mosSchema'))
    return A(H.tag(child) == H.tag(source),
             z3.Or(H.tag(source) != lit(MEM), A(cs != null, ss != null, text(cs) == text(ss))))


@contract('mosromgr.mostypes.MetaDataReplace._find_target')
class FindTarget(Contract):
    props = ('C03', 'C04')

    def entry(self, E):
        W = E.W
        st = State(L.Heap(0, 0), z3.IntVal(0))
        me = SObj(E.repo.cls('MetaDataReplace'), st.new_obj(None))
        st.objs[me.oid] = {'_xml': SNode(W.fresh('mroot', Node)), '_base_tag': NONE}
        return st, {'self': me, 'parent': SNode(W.fresh('parent', Node)), 'source': SNode(W.fresh('source', Node))}

    def requires(self, cx):
        return [('parent_not_none', cx.node('parent') != null), ('source_not_none', cx.node('source') != null)]

    def cases(self, cx):
        from pyvc.contracts import fresh_node
        P, src, H = cx.node('parent'), cx.node('source'), cx.H
        rv = fresh_node(cx.W, 'target')
        r = rv.t
        km = lambda y: key_match(cx.W, H, y, src)
        found = A(H.mem(P, r), km(r), forall_nodes(1, lambda y: Imp(A(H.mem(P, y), H.pos(P, y) < H.pos(P, r)), z3.Not(km(y))),
                                                   patterns=lambda y: [H.mem(P, y)]))
        notfound = forall_nodes(1, lambda y: Imp(H.mem(P, y), z3.Not(km(y))), patterns=lambda y: [H.mem(P, y)])
        return [Case('found', ret=STuple([rv, SInt(H.pos(P, r))]), assume=[found]),
                Case('notfound', ret=STuple([NONE, NONE]), assume=[notfound])]

    def loop(self, ordinal):
        if ordinal == 0:
            return FindTargetLoop()


class FindTargetLoop(LoopSpec):
    def invariant(self, cx, lp):
        P, src, H = cx.node('parent'), cx.node('source'), cx.H
        return [('no_match_before_k',
                 forall_nodes(1, lambda y: Imp(A(H.mem(P, y), H.pos(P, y) < lp.k), z3.Not(key_match(cx.W, H, y, src))),
                              patterns=lambda y: [H.mem(P, y)]))]


class MetaLoop(LoopSpec):
    writes_heap = True
    writes_tags = True

    def __init__(self, owner):
        self.o = owner

    def ghost_vars(self, cx):
        return {'rem': z3.ArraySort(Node, L.I)}

    def ghost_init(self, cx, lp):
        return {'rem': z3.K(Node, z3.IntVal(-1))}

    def invariant(self, cx, lp):
        o = self.o
        H0, c0 = lp.entry.heap, lp.entry.clock
        H, clk, k = lp.st.heap, lp.st.clock, lp.k
        W, lit = cx.W, cx.W.lit
        P, mb = o.V0(cx).base, o.mb(cx)
        car = lambda j: H0.at(mb, j)
        cpy = lambda j: cp(c0 + j + 1, car(j))
        rem = lambda z: z3.Select(lp.st.ghost['rem'], z)
        j = z3.Int('j!m')
        q, z = z3.Consts('q!fr z!fr', Node)
        t = z3.Const('t!fr', Str)
        kk = z3.Int('k!fr')
        out = [('clock', clk == c0 + k)]
        out.append(('only_old_and_copies',
                    forall_nodes(1, lambda z: Imp(H.mem(P, z), z3.Or(A(H0.mem(P, z), born(z) <= c0),
                                                                     A(c0 < born(z), born(z) <= c0 + k, z == cpy(born(z) - c0 - 1)))),
                                 patterns=lambda z: [H.mem(P, z)])))
        out.append(('C03.only_matching_metadata_removed',
                    forall_nodes(1, lambda z: Imp(A(H0.mem(P, z), z3.Not(H.mem(P, z))),
                                                  A(0 <= rem(z), rem(z) < k, key_match(W, H0, z, car(rem(z))))),
                                 patterns=lambda z: [H.mem(P, z), H0.mem(P, z)])))
        out.append(('survivors_keep_order',
                    forall_nodes(2, lambda z, w: Imp(A(H0.mem(P, z), H0.mem(P, w), H.mem(P, z), H.mem(P, w)),
                                                     (H.pos(P, z) < H.pos(P, w)) == (H0.pos(P, z) < H0.pos(P, w))),
                                 patterns=lambda z, w: [z3.MultiPattern(H.pos(P, z), H.pos(P, w))])))
        out.append(('C04.carried_elements_present',
                    z3.ForAll([j], Imp(A(0 <= j, j < k), H.mem(P, cpy(j))), patterns=[car(j)])))
        out.append(('roID_present', H.find(P, lit('roID')) != null))
        same_roid = forall_nodes(1, lambda c: Imp(A(H0.mem(mb, c), H0.tag(c) == lit('roID')), text(c) == text(H0.find(P, lit('roID')))),
                                 patterns=lambda c: [H0.mem(mb, c)])
        out.append(('C14.roID_text_kept', Imp(same_roid, text(H.find(P, lit('roID'))) == text(H0.find(P, lit('roID'))))))
        pre = lambda qq: A(qq != P, born(qq) <= c0)
        out.append(('frame.lists', A(
            z3.ForAll([q, z], Imp(pre(q), A(H.mem(q, z) == H0.mem(q, z), H.pos(q, z) == H0.pos(q, z))), patterns=[H.mem(q, z), H.pos(q, z)]),
            z3.ForAll([q], Imp(pre(q), H.len(q) == H0.len(q)), patterns=[H.len(q)]),
            z3.ForAll([q, kk], Imp(pre(q), H.at(q, kk) == H0.at(q, kk)), patterns=[H.at(q, kk)]))))
        out.append(('frame.tags', z3.ForAll([q], Imp(born(q) <= c0, H.tag(q) == H0.tag(q)), patterns=[H.tag(q)])))
        out.append(('frame.find', A(
            z3.ForAll([q, t], Imp(pre(q), H.find(q, t) == H0.find(q, t)), patterns=[H.find(q, t)]),
            z3.ForAll([q, t], Imp(pre(q), H.falen(q, t) == H0.falen(q, t)), patterns=[H.falen(q, t)]),
            z3.ForAll([q, t, kk], Imp(pre(q), H.fanode(q, t, kk) == H0.fanode(q, t, kk)), patterns=[H.fanode(q, t, kk)]),
            z3.ForAll([q, t, z], Imp(pre(q), H.faidx(q, t, z) == H0.faidx(q, t, z)), patterns=[H.faidx(q, t, z)]))))
        isc = lambda qq: A(c0 < born(qq), born(qq) <= clk, is_msg(orig(qq)), qq == cp(born(qq), orig(qq)))
        out.append(('copies_mirror', A(
            z3.ForAll([q], Imp(isc(q), A(H.tag(q) == H0.tag(orig(q)), H.len(q) == H0.len(orig(q)))), patterns=[H.tag(q), H.len(q)]),
            z3.ForAll([q, t], Imp(isc(q), H.find(q, t) == cp(born(q), H0.find(orig(q), t))), patterns=[H.find(q, t)]),
            z3.ForAll([q, z], Imp(isc(q), A(H.mem(q, z) == A(H0.mem(orig(q), orig(z)), z == cp(born(q), orig(z))),
                                            H.pos(q, z) == H0.pos(orig(q), orig(z)))), patterns=[H.mem(q, z), H.pos(q, z)]))))
        out.append(('ownership', z3.ForAll([q, z], Imp(H.mem(q, z), is_msg(q) == is_msg(z)), patterns=[H.mem(q, z)])))
        return out

    def ghost_update(self, cx, lp):
        new = [w for w in lp.st.writes[len(lp.head.writes):] if w[0] == 'kids' and w[3][0] == 'remove']
        r = lp.st.ghost['rem']
        for w in new:
            r = z3.Store(r, w[3][1], lp.k)
        return {'rem': r}


@contract('mosromgr.mostypes.MetaDataReplace.merge')
class MetaDataReplaceMerge(MergeContract):
    props = ('C03', 'C04', 'C05', 'C06', 'C07', 'C12', 'C13', 'C14', 'C15')
    cls_name = 'MetaDataReplace'
    base_tag_name = 'roMetadataReplace'
    frame = 'base'

    def shape(self, cx):
        H, W, lit = cx.H, cx.W, cx.W.lit
        mb = self.mb(cx)
        return [
            ('Shape.carries_metadata_not_stories',
             forall_nodes(1, lambda c: Imp(H.mem(mb, c), H.tag(c) != lit('story')), patterns=lambda c: [H.mem(mb, c)])),
            ('Shape.carried_elements_have_distinct_keys',
             forall_nodes(2, lambda c, d: Imp(A(H.mem(mb, c), H.mem(mb, d), c != d), z3.Not(key_match(W, H, c, d))),
                          patterns=lambda c, d: [z3.MultiPattern(H.mem(mb, c), H.mem(mb, d))])),
            ('Shape.carried_roEdStart_parseable',
             forall_nodes(1, lambda c: Imp(A(H.mem(mb, c), H.tag(c) == lit('roEdStart'), text(c) != none_s), is_dt(text(c))),
                          patterns=lambda c: [H.mem(mb, c)])),
        ]

    def loop(self, ordinal):
        if ordinal == 0:
            return MetaLoop(self)

    def ensures(self, cx, ex):
        H0, H1, W, lit = cx.H, ex.H, cx.W, cx.W.lit
        V0 = self.V0(cx)
        P, mb = V0.base, self.mb(cx)
        c0 = cx.clock
        n = H0.len(mb)
        out = self.std_normal(cx, ex)
        lp = ex.loop(0)
        if lp is None or getattr(lp, 'broke', False):
            out.append(('C04.every_carried_element_is_processed', z3.BoolVal(False)))
            return out
        j = z3.Int('j!e')
        cpy = lambda jj: cp(c0 + jj + 1, H0.at(mb, jj))
        out.append(('C03.stories_are_untouched_and_keep_their_order',
                    A(forall_nodes(1, lambda s: Imp(V0.is_story(s), A(H1.mem(P, s), list_same(H0, H1, s)))),
                      forall_nodes(2, lambda s, t: Imp(A(V0.is_story(s), V0.is_story(t)),
                                                       (H1.pos(P, s) < H1.pos(P, t)) == (H0.pos(P, s) < H0.pos(P, t)))))))
        out.append(('C03.only_metadata_with_the_same_tag_and_schema_is_replaced',
                    forall_nodes(1, lambda z: Imp(A(H0.mem(P, z), z3.Not(H1.mem(P, z))),
                                                  z3.Exists([j], A(0 <= j, j < n, key_match(W, H0, z, H0.at(mb, j))))))))
        out.append(('C03.metadata_not_carried_keeps_its_order',
                    forall_nodes(2, lambda z, w: Imp(A(H0.mem(P, z), H0.mem(P, w), H1.mem(P, z), H1.mem(P, w)),
                                                     (H1.pos(P, z) < H1.pos(P, w)) == (H0.pos(P, z) < H0.pos(P, w))))))
        out.append(('C04.every_carried_element_is_present_as_a_copy',
                    z3.ForAll([j], Imp(A(0 <= j, j < n), A(H1.mem(P, cpy(j)), H1.tag(cpy(j)) == H0.tag(H0.at(mb, j)))))))
        out.append(('C07.no_spurious_completion', H1.find(V0.root, lit('mosromgrmeta')) == H0.find(V0.root, lit('mosromgrmeta'))))
        out.append(('C14.roID_text_kept_unless_a_different_roID_is_carried',
                    A(H1.find(V0.root, lit('roCreate')) == P,
                      Imp(forall_nodes(1, lambda c: Imp(A(H0.mem(mb, c), H0.tag(c) == lit('roID')), text(c) == text(H0.find(P, lit('roID'))))),
                          text(H1.find(P, lit('roID'))) == text(H0.find(P, lit('roID')))))))
        out.append(('C06.no_warning', z3.BoolVal([w for w in ex.st.warns if not w.startswith('*')] == [])))
        return out
