"""Contracts of the running-order level merges: roReadyToAir, roDelete, roReplace (C03, C04, C07, C13, C14)."""
import z3
from pyvc import logic as L
from pyvc.logic import Node, Str, null, none_s, text, is_msg, is_int, is_dt, born, orig, cp, newnode, forall_nodes, forall_ints
from pyvc.values import *
from pyvc.contracts import contract, Contract, Case, LoopSpec
from .common import *
from .merge_story import list_same


def all_preexisting_lists_same(H0, H1, except_parent=None):
    return forall_nodes(1, lambda q: Imp(A(born(q) == 0, q != except_parent) if except_parent is not None else born(q) == 0,
                                         list_same(H0, H1, q)))


@contract('mosromgr.mostypes.ReadyToAir.merge')
class ReadyToAirMerge(MergeContract):
    props = ('C03', 'C05', 'C06', 'C07', 'C12', 'C13', 'C14')
    cls_name = 'ReadyToAir'
    base_tag_name = 'roReadyToAir'
    frame = 'none'

    def ensures(self, cx, ex):
        out = self.std_normal(cx, ex)
        out.append(('C03.nothing_changes', z3.BoolVal(not [w for w in ex.st.writes if w[0] != 'alloc'])))
        out.append(('C06.no_warning', z3.BoolVal(ex.st.warns == [])))
        return out


@contract('mosromgr.mostypes.RunningOrderEnd.merge')
class RunningOrderEndMerge(MergeContract):
    props = ('C03', 'C04', 'C05', 'C06', 'C07', 'C12', 'C13', 'C14')
    cls_name = 'RunningOrderEnd'
    base_tag_name = 'roDelete'
    frame = 'root'

    def requires(self, cx):
        root, mroot = self.roots(cx)
        return super().requires(cx) + [('not_completed', cx.H.find(root, cx.W.lit('mosromgrmeta')) == null)]

    def ensures(self, cx, ex):
        root, mroot = self.roots(cx)
        H0, H1, lit = cx.H, ex.H, cx.W.lit
        out = self.std_normal(cx, ex)
        meta = H1.find(root, lit('mosromgrmeta'))
        rec = cp(cx.clock + 2, self.mb(cx))
        out.append(('C07.marked_completed', meta != null))
        out.append(('C07+C04.record_holds_a_copy_of_the_roDelete',
                    A(born(meta) > 0, H1.len(meta) == 1, H1.mem(meta, rec), H1.tag(rec) == lit('roDelete'))))
        out.append(('C07+C14.exactly_one_completion_record',
                    forall_nodes(1, lambda x: Imp(A(H1.mem(root, x), H1.tag(x) == lit('mosromgrmeta')), x == meta))))
        out.append(('C07+C03.running_order_content_unchanged', all_preexisting_lists_same(H0, H1, except_parent=root)))
        out.append(('C07+C03.root_keeps_its_children_in_order',
                    forall_nodes(1, lambda z: Imp(H0.mem(root, z), A(H1.mem(root, z), H1.pos(root, z) == H0.pos(root, z))))))
        out.append(('C06.no_warning', z3.BoolVal(ex.st.warns == [])))
        return out


def ro_content_shape(W, H, base, name):
    """the carried <roReplace> has the shape of a running order body"""
    lit = W.lit
    return [
        ('%s.roID' % name, H.find(base, lit('roID')) != null),
        ('%s.stories_have_storyID' % name,
         forall_nodes(1, lambda s: Imp(A(H.mem(base, s), H.tag(s) == lit('story')), H.find(s, lit('storyID')) != null),
                      patterns=lambda s: [H.mem(base, s)])),
        ('%s.items_have_itemID' % name,
         forall_nodes(2, lambda s, i: Imp(A(H.mem(base, s), H.tag(s) == lit('story'), H.mem(s, i), H.tag(i) == lit('item')),
                                          H.find(i, lit('itemID')) != null),
                      patterns=lambda s, i: [z3.MultiPattern(H.mem(base, s), H.mem(s, i))])),
        ('%s.story_durations_numeric' % name,
         forall_nodes(1, lambda s: Imp(A(H.mem(base, s), H.tag(s) == lit('story')), timing_ok(W, H, s)),
                      patterns=lambda s: [H.mem(base, s)])),
        ('%s.roEdStart_parseable' % name,
         Imp(A(H.find(base, lit('roEdStart')) != null, text(H.find(base, lit('roEdStart'))) != none_s),
             is_dt(text(H.find(base, lit('roEdStart')))))),
    ]


@contract('mosromgr.mostypes.RunningOrderReplace.merge')
class RunningOrderReplaceMerge(MergeContract):
    props = ('C03', 'C04', 'C05', 'C06', 'C07', 'C12', 'C13', 'C14')
    cls_name = 'RunningOrderReplace'
    base_tag_name = 'roReplace'
    frame = 'root'

    def shape(self, cx):
        return ro_content_shape(cx.W, cx.H, self.mb(cx), 'Shape')

    def ensures(self, cx, ex):
        root, mroot = self.roots(cx)
        H0, H1, lit = cx.H, ex.H, cx.W.lit
        V0 = self.V0(cx)
        out = self.std_normal(cx, ex)
        rr = cp(cx.clock + 1, self.mb(cx))
        out.append(('C04.running_order_content_is_a_copy_of_the_roReplace',
                    A(H1.find(root, lit('roCreate')) == rr, z3.Not(H1.mem(root, V0.base)))))
        out.append(('C04+C14.placed_where_the_old_roCreate_was', H1.pos(root, rr) == H0.pos(root, V0.base)))
        out.append(('C03+C14.envelope_otherwise_unchanged',
                    forall_nodes(1, lambda z: Imp(A(H0.mem(root, z), z != V0.base), A(H1.mem(root, z), H1.pos(root, z) == H0.pos(root, z))))))
        out.append(('C14.roID_kept_when_addressed_to_this_running_order',
                    Imp(text(H0.find(self.mb(cx), lit('roID'))) == text(H0.find(V0.base, lit('roID'))),
                        text(H1.find(H1.find(root, lit('roCreate')), lit('roID'))) == text(H0.find(V0.base, lit('roID'))))))
        out.append(('C07.no_spurious_completion', H1.find(root, lit('mosromgrmeta')) == H0.find(root, lit('mosromgrmeta'))))
        out.append(('C06.no_warning', z3.BoolVal(ex.st.warns == [])))
        return out
