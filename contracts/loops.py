"""Generic loop invariants shared by the merge contracts.

InsertCopies: `for ... in carried: [skip duplicates]; insert_node(P, deepcopy(x.xml), index)`
  after k iterations the children of P are  old[0:idx0] ++ copies(0..k) ++ old[idx0:]
  (code-shaped: position of the j-th inserted copy is idx0 + ins(j)); everything
  else that existed at loop entry is untouched; the copies mirror their originals.

Ghost functions (history variables, DESIGN 3.5): skipped(j), ins(j) = number of
elements inserted among the first j, jof(e) = index of the element copied at
allocation event e.  They are only constrained below k by Inv(k); iteration k
defines them at k (ghost_update), which is the standard history-variable rule.
"""
import z3
from pyvc import logic as L
from pyvc.logic import Node, Str, null, none_s, text, is_msg, born, orig, cp, forall_nodes, forall_ints
from pyvc.contracts import LoopSpec
from .common import A, Imp
from .roles import found_nodes, enum_start, unique_local, enum_base, counter_invariant
from pyvc.values import SList, SInt, SNode, SNone


class InsertCopies(LoopSpec):
    writes_heap = True
    writes_tags = True      # deepcopy defines the tags of the fresh nodes

    def __init__(self, owner, name='ins'):
        self.owner = owner

    # --- to be provided by the concrete contract -------------------------
    def parent(self, cx, lp): raise NotImplementedError
    def idx0(self, cx, lp): raise NotImplementedError
    def carried(self, cx, lp, j): raise NotImplementedError
    def ctag(self, cx): raise NotImplementedError
    skipping = False

    # ghost state variables (arrays), havocked at the loop head, assigned by ghost code
    def ghost_vars(self, cx):
        if not self.skipping:
            return {}
        return {'skipped': z3.ArraySort(L.I, L.B), 'ins': z3.ArraySort(L.I, L.I), 'jof': z3.ArraySort(L.I, L.I)}

    def ghost_init(self, cx, lp):
        if not self.skipping:
            return {}
        return {'skipped': z3.K(L.I, z3.BoolVal(False)), 'ins': z3.K(L.I, z3.IntVal(0)), 'jof': z3.K(L.I, z3.IntVal(0))}

    def skipped(self, g, j):
        return z3.Select(g['skipped'], j) if self.skipping else z3.BoolVal(False)

    def ins(self, g, j):
        return z3.Select(g['ins'], j) if self.skipping else j

    def jof(self, g, lp, e):
        return z3.Select(g['jof'], e) if self.skipping else e - lp.entry.clock - 1

    def copy_of(self, cx, lp, g, j):
        """the node inserted for carried element j"""
        return cp(lp.entry.clock + self.ins(g, j) + 1, self.carried(cx, lp, j))

    def extra_invariant(self, cx, lp):
        return []

    def invariant(self, cx, lp):
        H0, c0 = lp.entry.heap, lp.entry.clock
        H, clk, k = lp.st.heap, lp.st.clock, lp.k
        P, i0 = self.parent(cx, lp), self.idx0(cx, lp)
        ct = self.ctag(cx)
        g = lp.st.ghost
        ins, skipped = (lambda j: self.ins(g, j)), (lambda j: self.skipped(g, j))
        jof = lambda e: self.jof(g, lp, e)
        cpy = lambda j: self.copy_of(cx, lp, g, j)
        n = lp.seq.length
        out = []
        out.append(('clock', clk == c0 + ins(k)))
        if self.skipping:
            j, j2 = z3.Ints('j!g j2!g')
            out.append(('ghost.ins', A(ins(0) == 0, ins(k) >= 0, ins(k) <= k,
                                       z3.ForAll([j, j2], Imp(A(0 <= j, j < j2, j2 <= k),
                                                              ins(j) + z3.If(skipped(j), 0, 1) <= ins(j2)),
                                                 patterns=[z3.MultiPattern(ins(j), ins(j2))]),
                                       z3.ForAll([j], Imp(A(0 <= j, j <= k), A(ins(j) >= 0, ins(j) <= j)), patterns=[ins(j)]))))
            e = z3.Int('e!g')
            out.append(('ghost.jof', z3.ForAll([e], Imp(A(c0 < e, e <= c0 + ins(k)),
                                                        A(0 <= jof(e), jof(e) < k, z3.Not(skipped(jof(e))), ins(jof(e)) == e - c0 - 1)),
                                               patterns=[jof(e)])))
        out.append(('old_children_shifted',
                    forall_nodes(1, lambda z: Imp(H0.mem(P, z), A(H.mem(P, z), H.pos(P, z) == H0.pos(P, z) + z3.If(H0.pos(P, z) >= i0, ins(k), 0))),
                                 patterns=lambda z: [H0.mem(P, z), H.mem(P, z), H.pos(P, z)])))
        out.append(('copies_in_place',
                    forall_ints(1, lambda j: Imp(A(0 <= j, j < k, z3.Not(skipped(j))),
                                                 A(H.mem(P, cpy(j)), H.pos(P, cpy(j)) == i0 + ins(j))),
                                patterns=lambda j: [self.carried(cx, lp, j)])))
        out.append(('only_old_and_copies',
                    forall_nodes(1, lambda z: Imp(H.mem(P, z),
                                                  z3.Or(H0.mem(P, z),
                                                        A(c0 < born(z), born(z) <= c0 + ins(k), z == cp(born(z), self.carried(cx, lp, jof(born(z))))))),
                                 patterns=lambda z: [H.mem(P, z)])))
        out.append(('length', H.len(P) == H0.len(P) + ins(k)))
        out.append(('idx_in_range', A(0 <= i0, i0 <= H0.len(P))))
        # frame: every other pre-existing parent, and all pre-existing tags
        t = z3.Const('t!fr', Str)
        kk = z3.Int('k!fr')
        q, z = z3.Consts('q!fr z!fr', Node)
        pre = lambda qq: A(qq != P, born(qq) <= c0)
        out.append(('frame.lists', A(
            z3.ForAll([q, z], Imp(pre(q), A(H.mem(q, z) == H0.mem(q, z), H.pos(q, z) == H0.pos(q, z))), patterns=[H.mem(q, z), H.pos(q, z)]),
            z3.ForAll([q], Imp(pre(q), H.len(q) == H0.len(q)), patterns=[H.len(q)]),
            z3.ForAll([q, kk], Imp(pre(q), H.at(q, kk) == H0.at(q, kk)), patterns=[H.at(q, kk)]))))
        out.append(('frame.tags', z3.ForAll([q], Imp(born(q) <= c0, H.tag(q) == H0.tag(q)), patterns=[H.tag(q)])))
        out.append(('frame.find', A(
            z3.ForAll([q, t], Imp(pre(q), H.find(q, t) == H0.find(q, t)), patterns=[H.find(q, t)]),
            z3.ForAll([q, t], Imp(pre(q), H.falen(q, t) == H0.falen(q, t)), patterns=[H.falen(q, t)]),
            z3.ForAll([q, t, kk], Imp(pre(q), H.fanode(q, t, kk) == H0.fanode(q, t, kk)), patterns=[H.fanode(q, t, kk)]),
            z3.ForAll([q, t, z], Imp(pre(q), H.faidx(q, t, z) == H0.faidx(q, t, z)), patterns=[H.faidx(q, t, z)]),
            z3.ForAll([t], Imp(t != ct, H.find(P, t) == H0.find(P, t)), patterns=[H.find(P, t)]))))
        # the copies made so far mirror their (message) originals as they were at loop entry
        isc = lambda qq: A(c0 < born(qq), born(qq) <= clk, is_msg(orig(qq)), qq == cp(born(qq), orig(qq)))
        out.append(('copies_mirror', A(
            z3.ForAll([q], Imp(isc(q), A(H.tag(q) == H0.tag(orig(q)), H.len(q) == H0.len(orig(q)))), patterns=[H.tag(q), H.len(q)]),
            z3.ForAll([q, t], Imp(isc(q), H.find(q, t) == cp(born(q), H0.find(orig(q), t))), patterns=[H.find(q, t)]),
            z3.ForAll([q, z], Imp(isc(q), A(H.mem(q, z) == A(H0.mem(orig(q), orig(z)), z == cp(born(q), orig(z))),
                                            H.pos(q, z) == H0.pos(orig(q), orig(z)))), patterns=[H.mem(q, z), H.pos(q, z)]))))
        out.append(('ownership', z3.ForAll([q, z], Imp(H.mem(q, z), is_msg(q) == is_msg(z)), patterns=[H.mem(q, z)])))
        if not self.skipping:
            out += counter_invariant(lp, i0, k)
        out += self.extra_invariant(cx, lp)
        return out


class DeleteByIds(LoopSpec):
    """`for x in named: found = find_child(P, tag, x.id); remove if found else warn`

    Inv(k): only children named by ids[0..k) were removed (ghost rem(z) = iteration that
    removed z), the survivors keep their order, under unique ids nothing named by
    ids[0..k) survives, everything else in the heap is untouched.
    """
    writes_heap = True
    writes_tags = False
    category = 'StoryNotFoundWarning'

    def __init__(self, owner):
        self.owner = owner

    def parent(self, cx, lp): raise NotImplementedError
    def ctag(self, cx): raise NotImplementedError
    def idtag(self, cx): raise NotImplementedError
    def ident(self, cx, lp, j): raise NotImplementedError     # id named by element j (Str, maybe none_s)

    def ghost_vars(self, cx):
        return {'rem': z3.ArraySort(Node, L.I)}     # iteration that removed a node (-1: not removed)

    def ghost_init(self, cx, lp):
        return {'rem': z3.K(Node, z3.IntVal(-1))}

    def eid(self, cx, H, z):
        return text(H.find(z, self.idtag(cx)))

    def is_elem0(self, cx, lp, z):
        H0 = lp.entry.heap
        return A(H0.mem(self.parent(cx, lp), z), H0.tag(z) == self.ctag(cx))

    def unique0(self, cx, lp):
        H0 = lp.entry.heap
        P = self.parent(cx, lp)
        return forall_nodes(2, lambda s, t: Imp(A(self.is_elem0(cx, lp, s), self.is_elem0(cx, lp, t),
                                                  self.eid(cx, H0, s) == self.eid(cx, H0, t)), s == t),
                            patterns=lambda s, t: [z3.MultiPattern(H0.mem(P, s), H0.mem(P, t))])

    def invariant(self, cx, lp):
        H0, c0 = lp.entry.heap, lp.entry.clock
        H, clk, k = lp.st.heap, lp.st.clock, lp.k
        P = self.parent(cx, lp)
        rem = lambda z: z3.Select(lp.st.ghost['rem'], z)
        ident = lambda j: self.ident(cx, lp, j)
        out = []
        out.append(('clock', clk == c0))
        out.append(('C03.only_named_removed',
                    forall_nodes(1, lambda z: A(Imp(H.mem(P, z), H0.mem(P, z)),
                                                Imp(A(H0.mem(P, z), z3.Not(H.mem(P, z))),
                                                    A(0 <= rem(z), rem(z) < k, H0.tag(z) == self.ctag(cx),
                                                      ident(rem(z)) != none_s, self.eid(cx, H0, z) == ident(rem(z))))),
                                 patterns=lambda z: [H.mem(P, z), H0.mem(P, z)])))
        out.append(('survivors_keep_order',
                    forall_nodes(2, lambda z, w: Imp(A(H.mem(P, z), H.mem(P, w)),
                                                     (H.pos(P, z) < H.pos(P, w)) == (H0.pos(P, z) < H0.pos(P, w))),
                                 patterns=lambda z, w: [z3.MultiPattern(H.pos(P, z), H.pos(P, w))])))
        out.append(('named_are_gone_when_ids_unique',
                    Imp(self.unique0(cx, lp),
                        z3.ForAll([z3.Int('j!d'), z3.Const('z!d', Node)],
                                  Imp(A(0 <= z3.Int('j!d'), z3.Int('j!d') < k, H.mem(P, z3.Const('z!d', Node)),
                                        H0.tag(z3.Const('z!d', Node)) == self.ctag(cx), ident(z3.Int('j!d')) != none_s),
                                      self.eid(cx, H0, z3.Const('z!d', Node)) != ident(z3.Int('j!d')))))))
        t = z3.Const('t!fr', Str)
        kk = z3.Int('k!fr')
        q, z = z3.Consts('q!fr z!fr', Node)
        out.append(('C03.frame.lists', A(
            z3.ForAll([q, z], Imp(q != P, A(H.mem(q, z) == H0.mem(q, z), H.pos(q, z) == H0.pos(q, z))), patterns=[H.mem(q, z), H.pos(q, z)]),
            z3.ForAll([q], Imp(q != P, H.len(q) == H0.len(q)), patterns=[H.len(q)]),
            z3.ForAll([q, kk], Imp(q != P, H.at(q, kk) == H0.at(q, kk)), patterns=[H.at(q, kk)]))))
        out.append(('frame.find', A(
            z3.ForAll([q, t], Imp(q != P, H.find(q, t) == H0.find(q, t)), patterns=[H.find(q, t)]),
            z3.ForAll([q, t], Imp(q != P, H.falen(q, t) == H0.falen(q, t)), patterns=[H.falen(q, t)]),
            z3.ForAll([q, t, kk], Imp(q != P, H.fanode(q, t, kk) == H0.fanode(q, t, kk)), patterns=[H.fanode(q, t, kk)]),
            z3.ForAll([q, t, z], Imp(q != P, H.faidx(q, t, z) == H0.faidx(q, t, z)), patterns=[H.faidx(q, t, z)]),
            z3.ForAll([t], Imp(t != self.ctag(cx), H.find(P, t) == H0.find(P, t)), patterns=[H.find(P, t)]))))
        out.append(('C13.ownership', z3.ForAll([q, z], Imp(H.mem(q, z), is_msg(q) == is_msg(z)), patterns=[H.mem(q, z)])))
        return out

    def ghost_update(self, cx, lp):
        # the node removed in this iteration (if any) was removed at iteration k
        new = [w for w in lp.st.writes[len(lp.head.writes):] if w[0] == 'kids' and w[3][0] == 'remove']
        r = lp.st.ghost['rem']
        for w in new:
            r = z3.Store(r, w[3][1], lp.k)
        return {'rem': r}

    def iteration(self, cx, lp):
        Hh, He = lp.head.heap, lp.st.heap
        P = self.parent(cx, lp)
        idk = self.ident(cx, lp, lp.k)
        match = lambda x: A(Hh.mem(P, x), Hh.tag(x) == self.ctag(cx), idk != none_s, self.eid(cx, Hh, x) == idk)
        w = lp.st.warns
        nwrites = len([x for x in lp.st.writes[len(lp.head.writes):] if x[0] == 'kids'])
        if w == []:
            x = z3.Const('x!it', Node)
            return [('C06.no_warning_means_the_named_element_was_removed',
                     A(z3.BoolVal(nwrites == 1), z3.Exists([x], A(match(x), z3.Not(He.mem(P, x))))))]
        if w == [self.category]:
            return [('C06.exactly_one_warning_of_the_documented_category_only_when_unresolvable',
                     A(z3.BoolVal(nwrites == 0), forall_nodes(1, lambda x: z3.Not(match(x)))))]
        return [('C06.at_most_one_warning_per_element', z3.BoolVal(False))]


# ---------------------------------------------------------------------------------------------
# Multi-element move = (A) resolve all sources, (B) remove them all, (C) insert them as a block
# ---------------------------------------------------------------------------------------------
def frame_other_parents(H0, H, P, ctag):
    """every child list other than P's, and find on P for other tags, are as in H0 (no tag writes)"""
    t = z3.Const('t!fr', Str)
    kk = z3.Int('k!fr')
    q, z = z3.Consts('q!fr z!fr', Node)
    return [('C03.frame.lists', A(
        z3.ForAll([q, z], Imp(q != P, A(H.mem(q, z) == H0.mem(q, z), H.pos(q, z) == H0.pos(q, z))), patterns=[H.mem(q, z), H.pos(q, z)]),
        z3.ForAll([q], Imp(q != P, H.len(q) == H0.len(q)), patterns=[H.len(q)]),
        z3.ForAll([q, kk], Imp(q != P, H.at(q, kk) == H0.at(q, kk)), patterns=[H.at(q, kk)]))),
        ('frame.find', A(
            z3.ForAll([q, t], Imp(q != P, H.find(q, t) == H0.find(q, t)), patterns=[H.find(q, t)]),
            z3.ForAll([q, t], Imp(q != P, H.falen(q, t) == H0.falen(q, t)), patterns=[H.falen(q, t)]),
            z3.ForAll([q, t, kk], Imp(q != P, H.fanode(q, t, kk) == H0.fanode(q, t, kk)), patterns=[H.fanode(q, t, kk)]),
            z3.ForAll([q, t, z], Imp(q != P, H.faidx(q, t, z) == H0.faidx(q, t, z)), patterns=[H.faidx(q, t, z)]),
            z3.ForAll([t], Imp(t != ctag, H.find(P, t) == H0.find(P, t)), patterns=[H.find(P, t)]))),
        ('C13.ownership', z3.ForAll([q, z], Imp(H.mem(q, z), is_msg(q) == is_msg(z)), patterns=[H.mem(q, z)]))]


def pats(var, *terms):
    """patterns that actually mention the bound variable (else let the solver choose)"""
    from pyvc.symexpr import _mentions
    return [t for t in terms if _mentions(t, var)]


class MoveLoops:
    """mixin for the owner contract: names shared by the three loops"""
    list_var = None          # local holding the resolved source nodes
    move_tag = None          # 'story' | 'item'
    move_idtag = None        # 'storyID' | 'itemID'

    def in_list(self, g, Lst, n, z):
        """z is one of the first n resolved sources (ghost inverse index `lidx` instead of an existential)"""
        li = z3.Select(g['lidx'], z)
        return A(0 <= li, li < n, Lst.elem(li).t == z)

    def m_match(self, cx, H, P, y, idv):
        return A(H.mem(P, y), H.tag(y) == cx.W.lit(self.move_tag), idv != none_s,
                 text(H.find(y, cx.W.lit(self.move_idtag))) == idv)


class CollectSources(LoopSpec):
    """(A) for x in named: node = find_child(P, tag, x.id); raise unless found / fresh; lst.append(node)"""
    writes_heap = False

    def __init__(self, owner):
        self.o = owner
        self.havoc_types = {'*list': 'nodelist'}

    def list_name(self, cx, lp):
        if 'list_var' not in cx.data:
            cx.data['list_var'] = unique_local(lp, SList)
        return cx.data['list_var']

    def ghost_vars(self, cx):
        return {'lidx': z3.ArraySort(Node, L.I)}    # inverse of the list of resolved sources

    def ghost_init(self, cx, lp):
        return {'lidx': z3.K(Node, z3.IntVal(-1))}

    def invariant(self, cx, lp):
        o = self.o
        H = lp.entry.heap
        P = o.move_parent(cx, lp)
        Lst = lp.st.locals[self.list_name(cx, lp)]
        k = lp.k
        j, j2 = z3.Ints('j!A j2!A')
        el = lambda i: Lst.elem(i).t
        tgt = o.move_target_node(cx, lp)
        out = [('list_length', Lst.length == k)]
        out.append(('sources_are_first_matches',
                    z3.ForAll([j], Imp(A(0 <= j, j < k),
                                       A(o.m_match(cx, H, P, el(j), o.move_ident(cx, j)),
                                         forall_nodes(1, lambda y: Imp(A(H.mem(P, y), H.pos(P, y) < H.pos(P, el(j))),
                                                                       z3.Not(o.m_match(cx, H, P, y, o.move_ident(cx, j)))),
                                                      patterns=lambda y: [H.mem(P, y)]),
                                         z3.Select(lp.st.ghost['lidx'], el(j)) == j,
                                         el(j) != tgt)),
                              patterns=pats(j, el(j)))))
        return out

    def ghost_update(self, cx, lp):
        Lst = lp.st.locals[self.list_name(cx, lp)]
        return {'lidx': z3.Store(lp.st.ghost['lidx'], Lst.elem(lp.k).t, lp.k)}


class RemoveAll(LoopSpec):
    """(B) for node in lst: remove_node(P, node)"""
    writes_heap = True

    def __init__(self, owner):
        self.o = owner

    def invariant(self, cx, lp):
        o = self.o
        H0, H, k = lp.entry.heap, lp.st.heap, lp.k
        P = o.move_parent(cx, lp)
        Lst = lp.seq            # the loop iterates the list of resolved sources itself
        out = [('clock', lp.st.clock == lp.entry.clock)]
        out.append(('removed_exactly_the_first_k_sources',
                    forall_nodes(1, lambda z: H.mem(P, z) == A(H0.mem(P, z), z3.Not(o.in_list(lp.st.ghost, Lst, k, z))),
                                 patterns=lambda z: [H.mem(P, z), H0.mem(P, z)])))
        out.append(('survivors_keep_order',
                    forall_nodes(2, lambda z, w: Imp(A(H.mem(P, z), H.mem(P, w)),
                                                     (H.pos(P, z) < H.pos(P, w)) == (H0.pos(P, z) < H0.pos(P, w))),
                                 patterns=lambda z, w: [z3.MultiPattern(H.pos(P, z), H.pos(P, w))])))
        out += frame_other_parents(H0, H, P, cx.W.lit(o.move_tag))
        return out


class InsertBlock(LoopSpec):
    """(C) for i, node in enumerate(lst, start=idx): insert_node(P, node, i)"""
    writes_heap = True

    def __init__(self, owner, index_var):
        self.o = owner
        self.index_var = index_var

    def invariant(self, cx, lp):
        o = self.o
        Hm, H, k = lp.entry.heap, lp.st.heap, lp.k
        P = o.move_parent(cx, lp)
        Lst = enum_base(lp)     # enumerate(<the list of resolved sources>, start=idx), or the list itself with a hand-kept counter
        idx = enum_start(lp)
        j = z3.Int('j!C')
        el = lambda i: Lst.elem(i).t
        out = [('clock', lp.st.clock == lp.entry.clock)]
        out.append(('idx_in_range', A(0 <= idx, idx <= Hm.len(P))))
        out.append(('others_shifted',
                    forall_nodes(1, lambda z: Imp(Hm.mem(P, z), A(H.mem(P, z), H.pos(P, z) == Hm.pos(P, z) + z3.If(Hm.pos(P, z) >= idx, k, 0))),
                                 patterns=lambda z: [Hm.mem(P, z), H.mem(P, z), H.pos(P, z)])))
        out.append(('block_in_place',
                    z3.ForAll([j], Imp(A(0 <= j, j < k), A(H.mem(P, el(j)), H.pos(P, el(j)) == idx + j)), patterns=pats(j, el(j)))))
        out.append(('only_others_and_block',
                    forall_nodes(1, lambda z: Imp(H.mem(P, z), z3.Or(Hm.mem(P, z), o.in_list(lp.st.ghost, Lst, k, z))),
                                 patterns=lambda z: [H.mem(P, z)])))
        out.append(('length', H.len(P) == Hm.len(P) + k))
        out += counter_invariant(lp, idx, k)
        out += frame_other_parents(Hm, H, P, cx.W.lit(o.move_tag))
        return out
