"""Contracts of the item-level merges (C02, C03, C04, C05, C06, C12, C13).

All of them first look the addressed story up with find_child(base, 'story', id);
S below is that story (the *first* story whose storyID equals the reference), and
every clause is about the child list of S only.  Placement clauses assume item IDs
unique within S (as C01 assumes unique story IDs)."""
import z3
from pyvc import logic as L
from pyvc.logic import Node, Str, null, none_s, text, is_msg, born, orig, cp, forall_nodes, forall_ints
from pyvc.values import *
from pyvc.contracts import contract, Contract, Case, LoopSpec
from .common import *
from .loops import InsertCopies, DeleteByIds, MoveLoops, CollectSources, RemoveAll, InsertBlock
from .merge_story import list_same, resolves, none_resolves
from .roles import found_nodes, enum_start, unique_local


class ItemContract(MergeContract):
    frame = 'story'
    story_in_target = False     # roElementAction: storyID lives in element_target

    # ---- message parts
    def tgt(self, cx):
        return cx.H.find(self.mb(cx), cx.W.lit('element_target'))

    def src(self, cx):
        return cx.H.find(self.mb(cx), cx.W.lit('element_source'))

    def idparent(self, cx):
        return self.tgt(cx) if self.story_in_target else self.mb(cx)

    def story_id(self, cx):
        return text(cx.H.find(self.idparent(cx), cx.W.lit('storyID')))

    def base_shape(self, cx):
        H, lit = cx.H, cx.W.lit
        out = []
        if self.story_in_target:
            out.append(('Shape.element_target_present', self.tgt(cx) != null))
        out.append(('Shape.storyID_tag_present', H.find(self.idparent(cx), lit('storyID')) != null))
        return out

    def shape(self, cx):
        return self.base_shape(cx)

    # ---- the addressed story
    def addressed(self, cx, S):
        """S is the story the message addresses: first story of the running order with that storyID"""
        V0 = self.V0(cx)
        H0 = cx.H
        sid = self.story_id(cx)
        return A(resolves(V0, sid, S),
                 forall_nodes(1, lambda y: Imp(A(H0.mem(V0.base, y), H0.pos(V0.base, y) < H0.pos(V0.base, S)),
                                               z3.Not(resolves(V0, sid, y))), patterns=lambda y: [H0.mem(V0.base, y)]))

    def frame_parent_ok(self, cx, P):
        return self.addressed(cx, P)

    def is_item0(self, cx, S, z):
        return A(cx.H.mem(S, z), cx.H.tag(z) == cx.W.lit('item'))

    def iid0(self, cx, z):
        return text(cx.H.find(z, cx.W.lit('itemID')))

    def item_resolves(self, cx, S, idv, z):
        return A(idv != none_s, self.is_item0(cx, S, z), self.iid0(cx, z) == idv)

    def no_item_resolves(self, cx, S, idv):
        return forall_nodes(1, lambda z: z3.Not(self.item_resolves(cx, S, idv, z)), patterns=lambda z: [cx.H.mem(S, z)])

    def unique_items(self, cx, S):
        H0 = cx.H
        return forall_nodes(2, lambda a, b: Imp(A(self.is_item0(cx, S, a), self.is_item0(cx, S, b), self.iid0(cx, a) == self.iid0(cx, b)), a == b),
                            patterns=lambda a, b: [z3.MultiPattern(H0.mem(S, a), H0.mem(S, b))])

    def other_stories_untouched(self, cx, ex):
        """C03: an item operation never touches another story (nor the roCreate child list)"""
        H0, H1 = cx.H, ex.H
        V0 = self.V0(cx)
        return ('C03.every_other_child_list_is_untouched',
                forall_nodes(1, lambda q: Imp(A(born(q) == 0, z3.Not(self.addressed(cx, q))), list_same(H0, H1, q))))

    def story_unresolved(self, cx):
        V0 = self.V0(cx)
        return none_resolves(V0, self.story_id(cx))

    def S_of(self, ex):
        # the addressed story is the result of the first find_child call
        f = found_nodes(ex.st)
        if not f or f[0].eq(null):
            return None
        return f[0]


# ------------------------------------------------------------------ carried items
class CarriedItems:
    carried_in_source = False

    def carried_parent(self, cx):
        return self.src(cx) if self.carried_in_source else self.mb(cx)

    def carried(self, cx, j):
        return cx.H.fanode(self.carried_parent(cx), cx.W.lit('item'), j)

    def n_carried(self, cx):
        return cx.H.falen(self.carried_parent(cx), cx.W.lit('item'))

    def carried_shape(self, cx):
        H, lit = cx.H, cx.W.lit
        cp_ = self.carried_parent(cx)
        out = []
        if self.carried_in_source:
            out.append(('Shape.element_source_present', cp_ != null))
        out.append(('Shape.carried_items_have_itemID',
                    forall_nodes(1, lambda i: Imp(A(H.mem(cp_, i), H.tag(i) == lit('item')), H.find(i, lit('itemID')) != null),
                                 patterns=lambda i: [H.mem(cp_, i)])))
        return out


class ItemInsertLoop(InsertCopies):
    index_var = 'item_index'
    def parent(self, cx, lp): return found_nodes(lp.entry)[0]
    def carried(self, cx, lp, j): return self.owner.carried(cx, j)
    def ctag(self, cx): return cx.W.lit('item')
    def idx0(self, cx, lp): return enum_start(lp)


def block_clauses(o, cx, ex, S, before, prop_name, removed=None):
    """copies of the carried items form a block in message order; every old child z of S (other than
    `removed`) is before the block iff before(z)"""
    H0, H1 = cx.H, ex.H
    n = o.n_carried(cx)
    c0 = cx.clock
    newn = lambda j: cp(c0 + j + 1, o.carried(cx, j))
    cid = lambda j: text(H0.find(o.carried(cx, j), cx.W.lit('itemID')))
    j, j2 = z3.Ints('j!e j2!e')
    keep = (lambda z: z != removed) if removed is not None else (lambda z: z3.BoolVal(True))
    return A(z3.ForAll([j], Imp(A(0 <= j, j < n),
                                A(H1.mem(S, newn(j)), H1.tag(newn(j)) == cx.W.lit('item'),
                                  text(H1.find(newn(j), cx.W.lit('itemID'))) == cid(j),
                                  forall_nodes(1, lambda z: Imp(A(H0.mem(S, z), keep(z)), (H1.pos(S, z) < H1.pos(S, newn(j))) == before(z))),
                                  z3.ForAll([j2], Imp(A(0 <= j2, j2 < j), H1.pos(S, newn(j2)) < H1.pos(S, newn(j))))))),
             forall_nodes(1, lambda z: Imp(H1.mem(S, z), z3.Or(H0.mem(S, z), A(c0 < born(z), born(z) <= c0 + n, z == newn(born(z) - c0 - 1))))))


class InsertItemsContract(CarriedItems, ItemContract):
    """roItemInsert / roElementAction INSERT (items): reference item blank -> end of the story"""

    def shape(self, cx):
        return self.base_shape(cx) + self.carried_shape(cx)

    def loop(self, ordinal):
        if ordinal == 0:
            return ItemInsertLoop(self)

    def ref_id(self, cx):
        """itemID of the reference item (None when the tag is absent or blank)"""
        H, lit = cx.H, cx.W.lit
        f = H.find(self.idparent(cx), lit('itemID'))
        return z3.If(f == null, none_s, text(f))

    def ensures(self, cx, ex):
        H0, H1 = cx.H, ex.H
        out = self.std_normal(cx, ex)
        S = self.S_of(ex)
        lp = ex.loop(0)
        if S is None or lp is None or getattr(lp, 'broke', False):
            out.append(('C06.every_carried_item_is_processed', z3.BoolVal(False)))
            return out
        rid = self.ref_id(cx)
        out.append(('C02.the_story_edited_is_the_addressed_story', self.addressed(cx, S)))
        out.append(self.other_stories_untouched(cx, ex))
        out.append(('C02+C03.old_children_of_the_story_keep_their_order', keep_order(H0, H1, S, lambda z: z3.BoolVal(False))))
        out.append(('C02+C04.inserted_in_message_order_immediately_before_the_reference_item',
                    forall_nodes(1, lambda t: Imp(A(self.unique_items(cx, S), self.item_resolves(cx, S, rid, t)),
                                                  block_clauses(self, cx, ex, S, lambda z: H0.pos(S, z) < H0.pos(S, t), 'C02')))))
        out.append(('C02+C04.inserted_at_the_end_when_the_reference_is_blank',
                    Imp(rid == none_s, block_clauses(self, cx, ex, S, lambda z: z3.BoolVal(True), 'C02'))))
        out.append(('C03.unresolvable_reference_is_inert',
                    Imp(A(rid != none_s, self.no_item_resolves(cx, S, rid)), list_same(H0, H1, S))))
        out.append(('C06.no_warning_when_applied', z3.BoolVal([w for w in ex.st.warns if not w.startswith('*')] == [])))
        return out

    def raises(self, cx, ex):
        out = self.std_raise(cx, ex)
        rid = self.ref_id(cx)
        out.append(('C02.no_error_when_references_resolve',
                    forall_nodes(1, lambda S: Imp(self.addressed(cx, S), A(rid != none_s, self.no_item_resolves(cx, S, rid))))))
        return out


@contract('mosromgr.mostypes.ItemInsert.merge')
class ItemInsertMerge(InsertItemsContract):
    props = ('C02', 'C03', 'C04', 'C05', 'C06', 'C07', 'C12', 'C13', 'C14', 'C15')
    cls_name = 'ItemInsert'
    base_tag_name = 'roItemInsert'


@contract('mosromgr.mostypes.EAItemInsert.merge')
class EAItemInsertMerge(InsertItemsContract):
    props = ('C02', 'C03', 'C04', 'C05', 'C06', 'C07', 'C12', 'C13', 'C14', 'C15')
    cls_name = 'EAItemInsert'
    base_tag_name = 'roElementAction'
    story_in_target = True
    carried_in_source = True


# ------------------------------------------------------------------ replace
class ReplaceItemsContract(CarriedItems, ItemContract):
    def shape(self, cx):
        H, lit = cx.H, cx.W.lit
        return self.base_shape(cx) + self.carried_shape(cx) + [
            ('Shape.itemID_tag_present', H.find(self.idparent(cx), lit('itemID')) != null)]

    def loop(self, ordinal):
        if ordinal == 0:
            return ItemInsertLoop(self)

    def ref_id(self, cx):
        return text(cx.H.find(self.idparent(cx), cx.W.lit('itemID')))

    def ensures(self, cx, ex):
        H0, H1 = cx.H, ex.H
        out = self.std_normal(cx, ex)
        S = self.S_of(ex)
        lp = ex.loop(0)
        if S is None or lp is None or getattr(lp, 'broke', False):
            out.append(('C06.every_carried_item_is_processed', z3.BoolVal(False)))
            return out
        rid = self.ref_id(cx)
        named = lambda z: A(self.is_item0(cx, S, z), rid != none_s, self.iid0(cx, z) == rid)
        out.append(('C02.the_story_edited_is_the_addressed_story', self.addressed(cx, S)))
        out.append(self.other_stories_untouched(cx, ex))
        out.append(('C02+C03.everything_else_in_the_story_keeps_its_order', keep_order(H0, H1, S, named)))
        out.append(('C02+C04.replacements_occupy_the_replaced_position_in_message_order',
                    forall_nodes(1, lambda t: Imp(A(self.unique_items(cx, S), self.item_resolves(cx, S, rid, t)),
                                                  A(z3.Not(H1.mem(S, t)),
                                                    block_clauses(self, cx, ex, S, lambda z: H0.pos(S, z) < H0.pos(S, t), 'C02', removed=t))))))
        out.append(('C03.unresolvable_item_is_inert', Imp(self.no_item_resolves(cx, S, rid), list_same(H0, H1, S))))
        out.append(('C06.no_warning_when_applied', z3.BoolVal([w for w in ex.st.warns if not w.startswith('*')] == [])))
        return out

    def raises(self, cx, ex):
        out = self.std_raise(cx, ex)
        rid = self.ref_id(cx)
        out.append(('C02.no_error_when_references_resolve',
                    forall_nodes(1, lambda S: Imp(self.addressed(cx, S), self.no_item_resolves(cx, S, rid)))))
        return out


@contract('mosromgr.mostypes.ItemReplace.merge')
class ItemReplaceMerge(ReplaceItemsContract):
    props = ('C02', 'C03', 'C04', 'C05', 'C06', 'C07', 'C12', 'C13', 'C14', 'C15')
    cls_name = 'ItemReplace'
    base_tag_name = 'roItemReplace'


@contract('mosromgr.mostypes.EAItemReplace.merge')
class EAItemReplaceMerge(ReplaceItemsContract):
    props = ('C02', 'C03', 'C04', 'C05', 'C06', 'C07', 'C12', 'C13', 'C14', 'C15')
    cls_name = 'EAItemReplace'
    base_tag_name = 'roElementAction'
    story_in_target = True
    carried_in_source = True


# ------------------------------------------------------------------ delete
class ItemDeleteLoop(DeleteByIds):
    category = 'ItemNotFoundWarning'
    def parent(self, cx, lp): return found_nodes(lp.entry)[0]
    def ctag(self, cx): return cx.W.lit('item')
    def idtag(self, cx): return cx.W.lit('itemID')
    def ident(self, cx, lp, j): return self.owner.ident(cx, j)


class DeleteItemsContract(ItemContract):
    ids_in_source = False
    story_missing = 'raise'      # 'raise' (roItemDelete) | 'warn' (roElementAction DELETE)

    def idsparent(self, cx):
        return self.src(cx) if self.ids_in_source else self.mb(cx)

    def shape(self, cx):
        out = self.base_shape(cx)
        if self.ids_in_source:
            out.append(('Shape.element_source_present', self.src(cx) != null))
        return out

    def n_ids(self, cx):
        return cx.H.falen(self.idsparent(cx), cx.W.lit('itemID'))

    def ident(self, cx, j):
        return text(cx.H.fanode(self.idsparent(cx), cx.W.lit('itemID'), j))

    def loop(self, ordinal):
        if ordinal == 0:
            return ItemDeleteLoop(self)

    def ensures(self, cx, ex):
        H0, H1 = cx.H, ex.H
        out = self.std_normal(cx, ex)
        S = self.S_of(ex)
        lp = ex.loop(0)
        if S is None or lp is None:
            # returned before the loop: only legal as "story not found" with exactly one StoryNotFoundWarning
            ok = (self.story_missing == 'warn' and ex.st.warns == ['StoryNotFoundWarning'])
            out.append(('C06.one_StoryNotFoundWarning_only_when_the_story_is_unresolvable',
                        A(z3.BoolVal(ok), self.story_unresolved(cx))))
            out.append(('C03.unresolvable_story_is_inert', z3.BoolVal(not [w for w in ex.st.writes if w[0] in ('kids', 'tag', 'loop')])))
            return out
        if getattr(lp, 'broke', False):
            out.append(('C06.every_named_item_is_processed', z3.BoolVal(False)))
            return out
        n = self.n_ids(cx)
        ident = lambda j: self.ident(cx, j)
        j = z3.Int('j!e')
        out.append(('C02.the_story_edited_is_the_addressed_story', self.addressed(cx, S)))
        out.append(self.other_stories_untouched(cx, ex))
        out.append(('C02.every_named_item_is_gone',
                    Imp(self.unique_items(cx, S),
                        z3.ForAll([j], Imp(A(0 <= j, j < n, ident(j) != none_s),
                                           forall_nodes(1, lambda z: Imp(A(self.is_item0(cx, S, z), self.iid0(cx, z) == ident(j)), z3.Not(H1.mem(S, z)))))))))
        named = lambda z: A(self.is_item0(cx, S, z), z3.Exists([j], A(0 <= j, j < n, ident(j) != none_s, self.iid0(cx, z) == ident(j))))
        out.append(('C02+C03.nothing_else_removed_and_order_kept',
                    A(forall_nodes(1, lambda z: A(Imp(H1.mem(S, z), H0.mem(S, z)), Imp(A(H0.mem(S, z), z3.Not(named(z))), H1.mem(S, z)))),
                      forall_nodes(2, lambda z, w: Imp(A(H1.mem(S, z), H1.mem(S, w)),
                                                       (H1.pos(S, z) < H1.pos(S, w)) == (H0.pos(S, z) < H0.pos(S, w)))))))
        return out

    def raises(self, cx, ex):
        out = self.std_raise(cx, ex)
        out.append(('C02.no_error_when_references_resolve', self.story_unresolved(cx)))
        return out


@contract('mosromgr.mostypes.ItemDelete.merge')
class ItemDeleteMerge(DeleteItemsContract):
    props = ('C02', 'C03', 'C05', 'C06', 'C07', 'C12', 'C13', 'C14', 'C15')
    cls_name = 'ItemDelete'
    base_tag_name = 'roItemDelete'


@contract('mosromgr.mostypes.EAItemDelete.merge')
class EAItemDeleteMerge(DeleteItemsContract):
    props = ('C02', 'C03', 'C05', 'C06', 'C07', 'C12', 'C13', 'C14', 'C15')
    cls_name = 'EAItemDelete'
    base_tag_name = 'roElementAction'
    story_in_target = True
    ids_in_source = True
    story_missing = 'warn'


# ------------------------------------------------------------------ swap
@contract('mosromgr.mostypes.EAItemSwap.merge')
class EAItemSwapMerge(ItemContract):
    props = ('C02', 'C03', 'C05', 'C06', 'C07', 'C12', 'C13', 'C14', 'C15')
    cls_name = 'EAItemSwap'
    base_tag_name = 'roElementAction'
    story_in_target = True

    def ident(self, cx, j):
        return text(cx.H.fanode(self.src(cx), cx.W.lit('itemID'), j))

    def shape(self, cx):
        return self.base_shape(cx) + [('Shape.element_source_with_exactly_two_itemIDs',
                                       A(self.src(cx) != null, cx.H.falen(self.src(cx), cx.W.lit('itemID')) == 2))]

    def ensures(self, cx, ex):
        H0, H1 = cx.H, ex.H
        out = self.std_normal(cx, ex)
        S = self.S_of(ex)
        if S is None:
            out.append(('C02.applied', z3.BoolVal(False)))
            return out
        ida, idb = self.ident(cx, 0), self.ident(cx, 1)
        out.append(('C02.the_story_edited_is_the_addressed_story', self.addressed(cx, S)))
        out.append(self.other_stories_untouched(cx, ex))
        out.append(('C02.swap_never_adds_or_loses_an_item', members_same(H0, H1, S)))
        out.append(('C02.swapped_items_exchange_positions',
                    forall_nodes(2, lambda a, b: Imp(A(self.unique_items(cx, S), self.item_resolves(cx, S, ida, a),
                                                       self.item_resolves(cx, S, idb, b), a != b),
                                                     A(H1.pos(S, a) == H0.pos(S, b), H1.pos(S, b) == H0.pos(S, a))))))
        out.append(('C02+C03.everything_else_stays_where_it_was',
                    forall_nodes(1, lambda z: Imp(A(H0.mem(S, z), z3.Not(A(self.is_item0(cx, S, z), z3.Or(self.iid0(cx, z) == ida, self.iid0(cx, z) == idb)))),
                                                  A(H1.mem(S, z), H1.pos(S, z) == H0.pos(S, z))))))
        out.append(('C06.no_warning_when_applied', z3.BoolVal(ex.st.warns == [])))
        return out

    def raises(self, cx, ex):
        out = self.std_raise(cx, ex)
        ida, idb = self.ident(cx, 0), self.ident(cx, 1)
        out.append(('C02.no_error_when_references_resolve',
                    forall_nodes(1, lambda S: Imp(self.addressed(cx, S),
                                                  z3.Or(self.no_item_resolves(cx, S, ida), self.no_item_resolves(cx, S, idb), ida == idb)))))
        return out


# ------------------------------------------------------------------ moves
from .merge_story import MoveContract


class ItemMoveContract(MoveContract, ItemContract):
    move_tag, move_idtag = 'item', 'itemID'
    list_var = 'source_items'
    index_var = 'target_item_index'
    frame = 'story'

    def move_parent(self, cx, lp):
        return found_nodes(lp.entry)[0]

    def move_target_node(self, cx, lp):
        # find_child calls before the sources are resolved: the story, then (if there is a target) the target item
        f = found_nodes(lp.entry)
        return f[1] if len(f) == 2 else null

    def frame_parent_ok(self, cx, P):
        return self.addressed(cx, P)

    def ensures(self, cx, ex):
        out = self.std_normal(cx, ex)
        S = self.S_of(ex)
        if S is None:
            out.append(('C02.applied', z3.BoolVal(False)))
            return out
        out.append(('C02.the_story_edited_is_the_addressed_story', self.addressed(cx, S)))
        out.append(self.other_stories_untouched(cx, ex))
        out += self.move_clauses(cx, ex, S, lambda z: self.is_item0(cx, S, z), lambda z: self.iid0(cx, z), 'C02')
        return out

    def raises(self, cx, ex):
        out = self.std_raise(cx, ex)
        n = self.move_n(cx)
        tid = self.move_target_id(cx)
        j, j2 = z3.Ints('j!r j2!r')
        distinct = z3.ForAll([j, j2], Imp(A(0 <= j, j < j2, j2 < n), self.move_ident(cx, j) != self.move_ident(cx, j2)))
        notgt = z3.ForAll([j], Imp(A(0 <= j, j < n), self.move_ident(cx, j) != tid))
        out.append(('C02.no_error_when_references_resolve',
                    forall_nodes(1, lambda S: Imp(self.addressed(cx, S),
                                                  z3.Not(A(self.unique_items(cx, S), distinct, notgt,
                                                           z3.ForAll([j], Imp(A(0 <= j, j < n), z3.Not(self.no_item_resolves(cx, S, self.move_ident(cx, j))))),
                                                           z3.Or(tid == none_s, z3.Not(self.no_item_resolves(cx, S, tid)))))))))
        return out


@contract('mosromgr.mostypes.EAItemMove.merge')
class EAItemMoveMerge(ItemMoveContract):
    props = ('C02', 'C03', 'C05', 'C06', 'C07', 'C12', 'C13', 'C14', 'C15')
    cls_name = 'EAItemMove'
    base_tag_name = 'roElementAction'
    story_in_target = True

    def shape(self, cx):
        return self.base_shape(cx) + [('Shape.element_source_present', self.src(cx) != null)]

    def move_n(self, cx):
        return cx.H.falen(self.src(cx), cx.W.lit('itemID'))

    def move_ident(self, cx, j):
        return text(cx.H.fanode(self.src(cx), cx.W.lit('itemID'), j))

    def move_target_id(self, cx):
        H, lit = cx.H, cx.W.lit
        f = H.find(self.tgt(cx), lit('itemID'))
        return z3.If(f == null, none_s, text(f))


@contract('mosromgr.mostypes.ItemMoveMultiple.merge')
class ItemMoveMultipleMerge(ItemMoveContract):
    """itemIDs of the base tag: all but the last are sources, the last is the reference (blank = end)"""
    props = ('C02', 'C03', 'C05', 'C06', 'C07', 'C12', 'C13', 'C14', 'C15')
    cls_name = 'ItemMoveMultiple'
    base_tag_name = 'roItemMoveMultiple'

    def shape(self, cx):
        return self.base_shape(cx) + [('Shape.at_least_one_itemID', cx.H.falen(self.mb(cx), cx.W.lit('itemID')) >= 1)]

    def move_n(self, cx):
        return cx.H.falen(self.mb(cx), cx.W.lit('itemID')) - 1

    def move_ident(self, cx, j):
        return text(cx.H.fanode(self.mb(cx), cx.W.lit('itemID'), j))

    def move_target_id(self, cx):
        H, lit = cx.H, cx.W.lit
        return text(H.fanode(self.mb(cx), lit('itemID'), H.falen(self.mb(cx), lit('itemID')) - 1))
