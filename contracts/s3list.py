"""C18 (S3 listing): get_mos_files returns every key with the suffix, over all result pages, in order.

Nested loops; the position of a key in the result is its rank = matches in earlier pages (ghost tot) + matches
earlier in its page (ghost cnt).  tot / cnt / cntp are ghost state variables maintained by ghost code and
characterised by proved invariants -- nothing about them is assumed."""
import z3
from pyvc import logic as L
from pyvc.logic import Node, Str, null, none_s
from pyvc.values import *
from pyvc.state import State
from .roles import unique_local
from pyvc.contracts import contract, Contract, Case, LoopSpec
from .common import A, Imp

pg_has = L.mkfun('s3_page_has_contents', L.I, L.B)
pg_len = L.mkfun('s3_page_len', L.I, L.I)
pg_key = L.mkfun('s3_page_key', L.I, L.I, Str)
IA = z3.ArraySort(L.I, L.I)
IAA = z3.ArraySort(L.I, IA)


@contract('lib.s3.paginate')
class Paginate(Contract):
    """A-S3: the listing is a non-empty sequence of pages; a page lacks 'Contents' only if it is the only page
    (an empty listing); every entry has a string 'Key'"""
    assumed = True
    props = ()

    def apply(self, E, st, bound):
        E.assumed_used.add('A-S3')
        E.used_contracts.add('lib.s3.paginate')
        W = E.W
        n = W.fresh('n_pages', L.I)
        p, j = z3.Ints('p!pg j!pg')
        st.assume(n >= 1)
        st.assume(z3.ForAll([p], Imp(A(0 <= p, p < n), A(pg_len(p) >= 0, z3.Or(pg_has(p), n == 1))), patterns=[pg_len(p)]))
        st.assume(z3.ForAll([p, j], pg_key(p, j) != none_s, patterns=[pg_key(p, j)]))

        def page(pp):
            o = SOpaque(None, 's3page')
            o.has_contents = pg_has(pp)

            def entry(jj, pp=pp):
                f = SOpaque(pg_key(pp, jj), 's3file')
                return f
            o.contents = SList(pg_len(pp), entry, desc='contents of page')
            o.index = pp
            return o
        pages = SList(n, page, desc='pages')
        return [(st, pages)]


def match(cx, p, j):
    return L.s_endswith(pg_key(p, j), cx.str('suffix'))


class InnerLoop(LoopSpec):
    havoc_types = {'*list': 'strlist'}

    def ghost_vars(self, cx):
        return {'cnt': IA}

    def ghost_init(self, cx, lp):
        return {'cnt': z3.K(L.I, z3.IntVal(0))}

    def invariant(self, cx, lp):
        k = lp.entry.locals['$k0'].t
        j = lp.k
        cnt = lp.st.ghost['cnt']
        tot = lp.entry.ghost['tot']
        fname = unique_local(lp, SList)
        files, files0 = lp.st.locals[fname], lp.entry.locals[fname]
        a, b, i = z3.Ints('a!in b!in i!in')
        return [('ghost.cnt_counts_matches', A(cnt[0] == 0,
                                               z3.ForAll([a], Imp(A(0 <= a, a < j), cnt[a + 1] == cnt[a] + z3.If(match(cx, k, a), 1, 0)), patterns=[cnt[a]]),
                                               z3.ForAll([a, b], Imp(A(0 <= a, a <= b, b <= j), cnt[a] <= cnt[b]), patterns=[z3.MultiPattern(cnt[a], cnt[b])]))),
                ('length', files.length == files0.length + cnt[j]),
                ('earlier_keys_untouched', z3.ForAll([i], Imp(A(0 <= i, i < files0.length), files.elem(i).t == files0.elem(i).t))),
                ('matching_keys_of_this_page_in_order',
                 z3.ForAll([a], Imp(A(0 <= a, a < j, match(cx, k, a)), files.elem(files0.length + cnt[a]).t == pg_key(k, a)), patterns=[cnt[a]]))]

    def ghost_update(self, cx, lp):
        k = lp.entry.locals['$k0'].t
        cnt = lp.st.ghost['cnt']
        return {'cnt': z3.Store(cnt, lp.k + 1, cnt[lp.k] + z3.If(match(cx, k, lp.k), 1, 0))}


class OuterLoop(LoopSpec):
    havoc_types = {'*list': 'strlist'}

    def ghost_vars(self, cx):
        return {'tot': IA, 'cntp': IAA, 'cnt': IA}

    def ghost_init(self, cx, lp):
        return {'tot': z3.K(L.I, z3.IntVal(0)), 'cntp': z3.K(L.I, z3.K(L.I, z3.IntVal(0))), 'cnt': z3.K(L.I, z3.IntVal(0))}

    def invariant(self, cx, lp):
        return outer_facts(cx, lp.st.ghost, lp.st.locals[unique_local(lp, SList)], lp.k)

    def ghost_update(self, cx, lp):
        g = lp.st.ghost
        k = lp.k
        return {'tot': z3.Store(g['tot'], k + 1, g['tot'][k] + g['cnt'][pg_len(k)]), 'cntp': z3.Store(g['cntp'], k, g['cnt'])}


def outer_facts(cx, g, files, k):
    tot, cntp = g['tot'], g['cntp']
    p, a, b = z3.Ints('p!ou a!ou b!ou')
    return [('ghost.tot_and_cnt_count_matches',
             A(tot[0] == 0,
               z3.ForAll([p], Imp(A(0 <= p, p < k), A(tot[p + 1] == tot[p] + cntp[p][pg_len(p)], cntp[p][0] == 0, tot[p] >= 0)), patterns=[tot[p]]),
               z3.ForAll([p, a], Imp(A(0 <= p, p < k, 0 <= a, a < pg_len(p)), cntp[p][a + 1] == cntp[p][a] + z3.If(match(cx, p, a), 1, 0)),
                         patterns=[cntp[p][a]]),
               z3.ForAll([p, a, b], Imp(A(0 <= p, p < k, 0 <= a, a <= b, b <= pg_len(p)), cntp[p][a] <= cntp[p][b]),
                         patterns=[z3.MultiPattern(cntp[p][a], cntp[p][b])]),
               z3.ForAll([a, b], Imp(A(0 <= a, a <= b, b <= k), tot[a] <= tot[b]), patterns=[z3.MultiPattern(tot[a], tot[b])]))),
            ('length', files.length == tot[k]),
            ('every_matching_key_of_the_pages_so_far_at_its_rank',
             z3.BoolVal(True) if (files.concrete is not None and len(files.concrete) == 0) else
             z3.ForAll([p, a], Imp(A(0 <= p, p < k, 0 <= a, a < pg_len(p), match(cx, p, a)),
                                   files.elem(tot[p] + cntp[p][a]).t == pg_key(p, a)), patterns=[cntp[p][a]]))]


@contract('mosromgr.utils.s3.get_mos_files')
class GetMosFiles(Contract):
    props = ('C18',)

    def entry(self, E):
        W = E.W
        st = State(L.Heap(0, 0), z3.IntVal(0))
        b, sfx = SStr(W.fresh('bucket', Str)), SStr(W.fresh('suffix', Str))
        pfx = SStr(W.fresh('prefix', Str))      # may be None
        st.assume(b.t != none_s, sfx.t != none_s)
        return st, {'bucket_name': b, 'prefix': pfx, 'suffix': sfx}

    def loop(self, ordinal):
        return {0: OuterLoop(), 1: InnerLoop()}.get(ordinal)

    def cases(self, cx):
        W = cx.W
        f = W.fresh_fun('listed_key', L.I, Str)
        n = W.fresh('n_listed', L.I)
        r = SList(n, lambda k: SStr(f(k)), desc='get_mos_files')
        r.elemkind = 'str'
        k = z3.Int('k!ls')
        return [Case('listed', ret=r, assume=[n >= 0, z3.ForAll([k], f(k) != none_s, patterns=[f(k)])])]

    def ensures(self, cx, ex):
        v = ex.value
        lp = ex.loop(0)
        if lp is None or not isinstance(v, SList):
            return [('C18.listing_returns_a_list', z3.BoolVal(False))]
        if getattr(lp, 'broke', False):
            # only an empty listing (its single page has no 'Contents') may stop the scan
            return [('C18.scan_stops_early_only_for_an_empty_listing', A(lp.k == 0, lp.seq.length == 1, v.length == 0))]
        n = lp.seq.length
        out = [(name.replace('ghost.', 'C18.rank_is_'), f) if name.startswith('ghost.') else ('C18.' + name, f)
               for name, f in outer_facts(cx, lp.st.ghost, v, n)]
        return out

    def raises(self, cx, ex):
        return [('C18.listing_does_not_fail_in_the_library[%s]' % ex.value.name(), z3.BoolVal(False))]
