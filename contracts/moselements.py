"""Contracts for mosromgr/moselements.py (C15, C16, C17; used by merges through RunningOrder.stories)."""
import z3
from pyvc import logic as L
from pyvc.logic import Node, Str, null, none_s, text, forall_nodes, forall_ints
from pyvc.values import *
from pyvc.contracts import contract, Contract, Case, LoopSpec
from .common import A, Imp, timing_ok


@contract('mosromgr.moselements._get_story_offsets')
class GetStoryOffsets(Contract):
    props = ()
    body_proved = False      # loop proof pending (C16)

    def requires(self, cx):
        v = cx.a['all_stories']
        if isinstance(v, SNone):
            return []
        H, lit = cx.H, cx.W.lit
        k = z3.Int('k!gso')
        el = v.elem(k).t
        return [('every_story_has_storyID_and_numeric_timing',
                 z3.ForAll([k], Imp(A(0 <= k, k < v.length),
                                    A(el != null, H.find(el, lit('storyID')) != null, timing_ok(cx.W, H, el)))))]

    def cases(self, cx):
        v = cx.a['all_stories']
        if isinstance(v, SNone):
            return [Case('none', ret=NONE)]
        W = cx.W
        d = SDict(sym=(W.fresh('off_keys', z3.ArraySort(Str, L.B)), W.fresh('off_vals', z3.ArraySort(Str, L.R)),
                       W.fresh('off_none', z3.ArraySort(Str, L.B))))
        return [Case('empty', ret=NONE, assume=[v.length == 0]),
                Case('offsets', ret=d, assume=[v.length > 0] + self.dict_facts(cx, v, d))]

    def dict_facts(self, cx, v, d):
        return []
