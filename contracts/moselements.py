"""Contracts for mosromgr/moselements.py and the RunningOrder aggregates (C15, C16, C17)."""
import z3
from pyvc import logic as L
from pyvc.logic import Node, Str, null, none_s, text, is_float, float_of, is_dt, dt_of, forall_nodes, forall_ints
from pyvc.values import *
from pyvc.state import State
from pyvc.contracts import contract, Contract, Case, LoopSpec
from .common import A, Imp, timing_ok, ro_inv, ownership


# ------------------------------------------------------------------ specification of a story's duration
def dur_spec(W, H, s):
    """(is_none, value): StoryDuration if present, else TextTime + MediaTime (a missing one counts 0), else None"""
    lit = W.lit
    md = H.find(s, lit('mosExternalMetadata'))
    pl = H.find(md, lit('mosPayload'))
    sd, tt, mt = H.find(pl, lit('StoryDuration')), H.find(pl, lit('TextTime')), H.find(pl, lit('MediaTime'))
    nopl = z3.Or(md == null, pl == null)
    isnone = z3.Or(nopl, A(sd == null, tt == null, mt == null))
    val = z3.If(sd != null, float_of(text(sd)),
                z3.If(tt != null, float_of(text(tt)), z3.RealVal(0)) + z3.If(mt != null, float_of(text(mt)), z3.RealVal(0)))
    return isnone, val


def as_optreal(v):
    if isinstance(v, SNone):
        return z3.BoolVal(True), z3.RealVal(0)
    if isinstance(v, SInt):
        return z3.BoolVal(False), z3.ToReal(v.t)
    if isinstance(v, SReal):
        return v.isnone, v.t
    if isinstance(v, SIte):
        an, av = as_optreal(v.a)
        bn, bv = as_optreal(v.b)
        return z3.If(v.cond, an, bn), z3.If(v.cond, av, bv)
    raise Exception('not a number: %r' % (v,))


@contract('mosromgr.moselements._get_story_duration')
class GetStoryDuration(Contract):
    props = ('C15', 'C16', 'C12')
    opaque = False

    def entry(self, E):
        st = State(L.Heap(0, 0), z3.IntVal(0))
        return st, {'story_tag': SNode(E.W.fresh('story', Node))}

    def requires(self, cx):
        s = cx.node('story_tag')
        return [('story_element', s != null), ('durations_numeric_where_present', timing_ok(cx.W, cx.H, s))]

    def ensures(self, cx, ex):
        n, v = as_optreal(ex.value)
        sn, sv = dur_spec(cx.W, cx.H, cx.node('story_tag'))
        return [('C16+C15.duration_is_StoryDuration_else_TextTime_plus_MediaTime_else_None', A(n == sn, z3.Or(sn, v == sv)))]

    def raises(self, cx, ex):
        return [('C15+C12.duration_never_raises[%s]' % ex.value.name(), z3.BoolVal(False))]


# ------------------------------------------------------------------ offsets
class Prefix:
    """spec functions of one story list: psum(j) = sum of the first j durations, pnone(j) = one of them is unknown.
    Fresh functions defined by primitive recursion (definitional axioms)."""

    def __init__(self, W, H, lst):
        self.psum = W.fresh_fun('psum', L.I, L.R)
        self.pnone = W.fresh_fun('pnone', L.I, L.B)
        self.W, self.H, self.lst = W, H, lst

    def dur(self, j):
        return dur_spec(self.W, self.H, self.lst.elem(j).t)

    def axioms(self):
        j = z3.Int('j!ps')
        dn, dv = self.dur(j)
        return [self.psum(0) == 0, z3.Not(self.pnone(0)),
                z3.ForAll([j], Imp(j >= 0, A(self.psum(j + 1) == self.psum(j) + dv, self.pnone(j + 1) == z3.Or(self.pnone(j), dn))),
                          patterns=[self.psum(j + 1), self.pnone(j + 1)])]


def offsets_facts(P, lst, d):
    """dict d maps story j to psum(j) (None once a duration was unknown)"""
    keys, vals, nonev = d.sym
    j = z3.Int('j!of')
    el = lambda jj: lst.elem(jj).t
    return z3.ForAll([j], Imp(A(0 <= j, j < lst.length),
                              A(z3.Select(keys, el(j)), z3.Select(nonev, el(j)) == P.pnone(j),
                                Imp(z3.Not(P.pnone(j)), z3.Select(vals, el(j)) == P.psum(j)))),
                     patterns=[el(j)])


def distinct_elems(lst):
    j, j2 = z3.Ints('j!de j2!de')
    return z3.ForAll([j, j2], Imp(A(0 <= j, j < j2, j2 < lst.length), lst.elem(j).t != lst.elem(j2).t))


class OffsetsLoop(LoopSpec):
    havoc_types = {'*num': 'optreal', '*dict': 'nodedict'}     # the running total and the offsets dict, whatever they are called

    def __init__(self, owner):
        self.o = owner

    def invariant(self, cx, lp):
        P = self.o.prefix(cx)
        lst = cx.a['all_stories']
        k = lp.k
        from .roles import unique_local
        tn, tv = as_optreal(lp.st.locals[unique_local(lp, (SInt, SReal))])
        d = lp.st.locals[unique_local(lp, SDict)]
        keys, vals, nonev = d.sym
        j = z3.Int('j!ol')
        el = lambda jj: lst.elem(jj).t
        return [('running_total', A(tn == P.pnone(k), Imp(z3.Not(P.pnone(k)), tv == P.psum(k)))),
                ('offsets_so_far', z3.ForAll([j], Imp(A(0 <= j, j < k),
                                                      A(z3.Select(keys, el(j)), z3.Select(nonev, el(j)) == P.pnone(j),
                                                        Imp(z3.Not(P.pnone(j)), z3.Select(vals, el(j)) == P.psum(j)))),
                                             patterns=[el(j)]))]


@contract('mosromgr.moselements._get_story_offsets')
class GetStoryOffsets(Contract):
    props = ('C12', 'C15', 'C16')

    def entry(self, E):
        W = E.W
        st = State(L.Heap(0, 0), z3.IntVal(0))
        n = W.fresh('n_stories', L.I)
        st.assume(n >= 0)
        f = W.fresh_fun('story', L.I, Node)
        lst = SList(n, lambda k: SNode(f(k)), desc='all_stories')
        lst.elemkind = 'node'
        return st, {'all_stories': lst}

    def prefix(self, cx):
        if 'prefix' not in cx.data:
            cx.data['prefix'] = Prefix(cx.W, cx.H, cx.a['all_stories'])
        return cx.data['prefix']

    def requires(self, cx):
        v = cx.a['all_stories']
        if isinstance(v, SNone):
            return []
        H, lit = cx.H, cx.W.lit
        k = z3.Int('k!gso')
        el = v.elem(k).t
        out = [('stories_are_elements_with_numeric_durations',
                z3.ForAll([k], Imp(A(0 <= k, k < v.length), A(el != null, timing_ok(cx.W, H, el))), patterns=[el])),
               ('stories_are_distinct_elements', distinct_elems(v))]
        return out

    def vocabulary(self, cx):
        return self.prefix(cx).axioms()

    def cases(self, cx):
        v = cx.a['all_stories']
        if isinstance(v, SNone):
            return [Case('none', ret=NONE)]
        W = cx.W
        P = self.prefix(cx)
        d = SDict(sym=(W.fresh('off_keys', z3.ArraySort(Node, L.B)), W.fresh('off_vals', z3.ArraySort(Node, L.R)),
                       W.fresh('off_none', z3.ArraySort(Node, L.B))))
        d.prefix = P
        return [Case('empty', ret=NONE, assume=[v.length == 0]),
                Case('offsets', ret=d, assume=[v.length > 0] + P.axioms() + [offsets_facts(P, v, d)])]

    def loop(self, ordinal):
        if ordinal == 0:
            return OffsetsLoop(self)

    def ensures(self, cx, ex):
        v = cx.a['all_stories']
        r = ex.value
        if isinstance(r, SNone):
            return [('C16.no_offsets_only_for_an_empty_list', v.length == 0)]
        P = self.prefix(cx)
        return [('C16.offset_of_each_story_is_the_sum_of_the_durations_before_it', A(v.length > 0, offsets_facts(P, v, r)))]

    def raises(self, cx, ex):
        return [('C15+C12.offsets_never_raise[%s]' % ex.value.name(), z3.BoolVal(False))]


# ------------------------------------------------------------------ assumed library folds
@contract('builtin.sum')
class Sum(Contract):
    """A-NUM: sum(xs) folds + from 0 left to right; an element that is None raises TypeError"""
    assumed = True
    props = ()

    def apply(self, E, st, bound):
        xs = bound['xs']
        E.assumed_used.add('A-NUM')
        E.used_contracts.add('builtin.sum')
        W = E.W
        k = z3.Int('k!sum')
        el = xs.elem(k)
        n_, v_ = as_optreal(el)
        S = W.fresh_fun('fold_sum', L.I, L.R)
        some_none = W.fresh('sum_none_at', L.I)
        ok = st.fork()
        ok.assume(z3.ForAll([k], Imp(A(0 <= k, k < xs.length), z3.Not(n_))))
        ok.assume(S(0) == 0, z3.ForAll([k], Imp(k >= 0, S(k + 1) == S(k) + v_), patterns=[S(k + 1)]))
        r = SReal(S(xs.length))
        r.fold = (S, xs)
        out = []
        if E.feasible(ok):
            ok.trace.append('sum:ok')
            out.append((ok, r))
        bad = st.fork()
        bad.assume(0 <= some_none, some_none < xs.length, z3.substitute(n_, (k, some_none)))
        if E.feasible(bad):
            bad.trace.append('sum:None')
            out.append(E.raise_(bad, 'TypeError', origin='sum() of None'))
        return out


flat_of = L.mkfun('flatten', L.Obj, L.Obj)


@contract('builtin.chain')
class Chain(Contract):
    """itertools.chain.from_iterable(xss): the concatenation of the lists in order (opaque value; the caller
    proves which lists, in which order, it passes)"""
    assumed = True
    props = ()

    def apply(self, E, st, bound):
        xss = bound['xss']
        E.used_contracts.add('builtin.chain')
        r = SList(E.W.fresh('chain_len', L.I), lambda k: SOpaque(None, 'chained'), desc='chain')
        r.chained = xss
        st.assume(r.length >= 0)
        return [(st, r)]


# ------------------------------------------------------------------ Story / Item objects
UNSET = 'mosromgr.moselements._UNSET'


def story_obj(E, st, xml, offsets, prog, unknown_items=None, cls='Story'):
    W = E.W
    c = E.repo.cls(cls)
    o = SObj(c, st.new_obj(None))
    st.objs[o.oid] = {'_xml': SNode(xml), '_id': SStr(W.sentinel(UNSET)), '_slug': NONE,
                      '_id_tag': SStr(W.lit('storyID'), py='storyID'), '_slug_tag': SStr(W.lit('storySlug'), py='storySlug'),
                      '_duration': NONE, '_unknown_items': unknown_items if unknown_items is not None else SBool(False),
                      '_prog_start_time': prog, '_story_offsets': offsets}
    if cls == 'Item':
        st.objs[o.oid].update({'_id_tag': SStr(W.lit('itemID'), py='itemID'), '_slug_tag': SStr(W.lit('itemSlug'), py='itemSlug')})
    return o


def opt_dt(W, name):
    d = SOpaque(W.fresh(name, L.R), 'datetime')
    d.isnone = W.fresh(name + '_none', L.B)
    return d


def dt_parts(v):
    if isinstance(v, SNone):
        return z3.BoolVal(True), z3.RealVal(0)
    return getattr(v, 'isnone', z3.BoolVal(False)), v.t


def payload(W, H, s):
    md = H.find(s, W.lit('mosExternalMetadata'))
    pl = H.find(md, W.lit('mosPayload'))
    return md, pl


def explicit_time(W, H, s, tag):
    md, pl = payload(W, H, s)
    f = H.find(pl, W.lit(tag))
    return A(md != null, pl != null, f != null), dt_of(text(f))


def offset_spec(st, o):
    d = st.fields(o)['_story_offsets']
    if isinstance(d, SNone):
        return z3.BoolVal(True), z3.RealVal(0)
    keys, vals, nonev = d.sym
    x = st.fields(o)['_xml'].t
    return z3.Or(z3.Not(z3.Select(keys, x)), z3.Select(nonev, x)), z3.Select(vals, x)


def start_spec(W, H, st, o):
    s = st.fields(o)['_xml'].t
    ex, exv = explicit_time(W, H, s, 'StoryStarted')
    pn, pv = dt_parts(st.fields(o)['_prog_start_time'])
    on, ov = offset_spec(st, o)
    return z3.If(ex, z3.BoolVal(False), z3.Or(pn, on)), z3.If(ex, exv, pv + ov)


def end_spec(W, H, st, o):
    s = st.fields(o)['_xml'].t
    ex, exv = explicit_time(W, H, s, 'StoryEnded')
    sn, sv = start_spec(W, H, st, o)
    dn, dv = dur_spec(W, H, s)
    return z3.If(ex, z3.BoolVal(False), z3.Or(sn, dn)), z3.If(ex, exv, sv + dv)


class StoryProp(Contract):
    """accessor of a Story built the way RunningOrder.stories builds it (offsets dict or none; programme start or none)"""
    opaque = False
    props = ('C15', 'C16', 'C12')

    def entry(self, E):
        W = E.W
        out = []
        for with_offsets in (True, False):
            st = State(L.Heap(0, 0), z3.IntVal(0))
            s = W.fresh('story', Node)
            if with_offsets:
                d = SDict(sym=(W.fresh('off_keys', z3.ArraySort(Node, L.B)), W.fresh('off_vals', z3.ArraySort(Node, L.R)),
                               W.fresh('off_none', z3.ArraySort(Node, L.B))))
            else:
                d = NONE
            o = story_obj(E, st, s, d, opt_dt(W, 'prog_start'), unknown_items=SBool(W.fresh('unknown_items', L.B)))
            out.append((st, {'self': o}))
        return out

    def requires(self, cx):
        s = cx.st.fields(cx.a['self'])['_xml'].t
        return [('story_element', s != null), ('times_and_durations_well_formed_where_present', timing_ok(cx.W, cx.H, s))]

    def raises(self, cx, ex):
        return [('C15+C12.never_raises[%s]' % ex.value.name(), z3.BoolVal(False))]


def regprop(qual, ensures_fn, base=StoryProp, props=None):
    cls = type('P_' + qual.replace('.', '_'), (base,), {'ensures': lambda self, cx, ex: ensures_fn(self, cx, ex)})
    inst = cls()
    inst.qualname = qual
    if props:
        inst.props = props
    from pyvc.contracts import REGISTRY
    REGISTRY[qual] = inst
    return inst


def _dur_ens(self, cx, ex):
    n, v = as_optreal(ex.value)
    sn, sv = dur_spec(cx.W, cx.H, cx.st.fields(cx.a['self'])['_xml'].t)
    return [('C16.duration', A(n == sn, z3.Or(sn, v == sv)))]


def _off_ens(self, cx, ex):
    n, v = as_optreal(ex.value)
    sn, sv = offset_spec(cx.st, cx.a['self'])
    return [('C16+C15.offset_is_the_recorded_prefix_sum_or_None', A(n == sn, z3.Or(sn, v == sv)))]


def _start_ens(self, cx, ex):
    n, v = dt_parts(ex.value)
    sn, sv = start_spec(cx.W, cx.H, cx.st, cx.a['self'])
    return [('C16.start_is_StoryStarted_else_programme_start_plus_offset_else_None', A(n == sn, z3.Or(sn, v == sv)))]


def _end_ens(self, cx, ex):
    n, v = dt_parts(ex.value)
    sn, sv = end_spec(cx.W, cx.H, cx.st, cx.a['self'])
    return [('C16.end_is_StoryEnded_else_start_plus_duration_else_None', A(n == sn, z3.Or(sn, v == sv)))]


regprop('mosromgr.moselements.Story.duration', _dur_ens)
regprop('mosromgr.moselements.Story.offset', _off_ens)
regprop('mosromgr.moselements.Story.start_time', _start_ens)
regprop('mosromgr.moselements.Story.end_time', _end_ens)


def _items_ens(self, cx, ex):
    o = cx.a['self']
    s = cx.st.fields(o)['_xml'].t
    ui = cx.st.fields(o)['_unknown_items'].t
    v = ex.value
    if isinstance(v, SNone):
        return [('C15.items_None_only_when_unknown', ui)]
    H, W = cx.H, cx.W
    j = z3.Int('j!it')
    return [('C15.items_are_the_item_children_in_document_order',
             A(z3.Not(ui), v.length == H.falen(s, W.lit('item')),
               z3.ForAll([j], Imp(A(0 <= j, j < v.length), ex.st.fields(v.elem(j))['_xml'].t == H.fanode(s, W.lit('item'), j)))))]


regprop('mosromgr.moselements.Story.items', _items_ens, props=('C15', 'C12'))


def _slug_ens(self, cx, ex):
    o = cx.a['self']
    s = cx.st.fields(o)['_xml'].t
    tag = cx.st.fields(o)['_slug_tag'].t
    f = cx.H.find(s, tag)
    v = ex.value
    vt = none_s if isinstance(v, SNone) else v.t
    return [('C15.slug_is_the_slug_tag_text_or_None', vt == z3.If(f == null, none_s, text(f)))]


regprop('mosromgr.moselements.MosElement.slug', _slug_ens, props=('C15', 'C12'))


class ItemProp(StoryProp):
    props = ('C15', 'C12')

    def entry(self, E):
        st = State(L.Heap(0, 0), z3.IntVal(0))
        o = story_obj(E, st, E.W.fresh('item', Node), NONE, NONE, cls='Item')
        return st, {'self': o}

    def requires(self, cx):
        return [('item_element', cx.st.fields(cx.a['self'])['_xml'].t != null)]


def _child_text(tag):
    def ens(self, cx, ex):
        s = cx.st.fields(cx.a['self'])['_xml'].t
        f = cx.H.find(s, cx.W.lit(tag))
        v = ex.value
        vt = none_s if isinstance(v, SNone) else v.t
        return [('C15.%s_text_or_None' % tag, vt == z3.If(f == null, none_s, text(f)))]
    return ens


regprop('mosromgr.moselements.Item.type', _child_text('objType'), base=ItemProp)
regprop('mosromgr.moselements.Item.object_id', _child_text('objID'), base=ItemProp)
regprop('mosromgr.moselements.Item.mos_id', _child_text('mosID'), base=ItemProp)


def _note_ens(self, cx, ex):
    s = cx.st.fields(cx.a['self'])['_xml'].t
    H, W = cx.H, cx.W
    md, pl = payload(W, H, s)
    note = L.note_path(pl)
    t = H.find(note, W.lit('text'))
    present = A(md != null, pl != null, note != null, t != null)
    v = ex.value
    vt = none_s if isinstance(v, SNone) else v.t
    return [('C15.note_text_or_None', vt == z3.If(present, text(t), none_s))]


regprop('mosromgr.moselements.Item.note', _note_ens, base=ItemProp)


# ------------------------------------------------------------------ script / body (C17)
def note_spec(W, t):
    """text t (stripped) is a technical note: wrapped in round or angle brackets"""
    st_ = L.s_strip(t)
    return z3.Or(A(L.s_startswith(st_, W.lit('(')), L.s_endswith(st_, W.lit(')'))),
                 A(L.s_startswith(st_, W.lit('<')), L.s_endswith(st_, W.lit('>'))))


def script_incl(W, H, p):
    t = text(p)
    return A(L.s_truthy(t), L.s_truthy(L.s_strip(t)), z3.Not(note_spec(W, t)))


def ite_term(v):
    if isinstance(v, SIte):
        return z3.If(v.cond, ite_term(v.a), ite_term(v.b))
    if isinstance(v, SNone):
        return none_s
    return v.t


def _script_ens(self, cx, ex):
    o = cx.a['self']
    s = cx.st.fields(o)['_xml'].t
    H, W = cx.H, cx.W
    v = ex.value
    if not isinstance(v, SList) or not hasattr(v, 'incl'):
        return [('C17.script_is_a_filtered_list_of_paragraphs', z3.BoolVal(False))]
    k = z3.Int('k!sc')
    para = lambda kk: H.fanode(s, W.lit('p'), kk)
    base_ok = v.base.length == H.falen(s, W.lit('p'))
    el = v.elem_at_base(k) if hasattr(v, 'elem_at_base') else None
    return [('C17.script_is_exactly_the_non_empty_non_note_paragraphs_stripped_in_order',
             A(base_ok,
               z3.ForAll([k], Imp(A(0 <= k, k < v.base.length),
                                  A(v.incl(k) == script_incl(W, H, para(k)),
                                    Imp(v.incl(k), ite_term(el) == L.s_strip(text(para(k)))))))))]


regprop('mosromgr.moselements.Story.script', _script_ens, props=('C17', 'C15', 'C12'))


def _body_ens(self, cx, ex):
    o = cx.a['self']
    s = cx.st.fields(o)['_xml'].t
    H, W = cx.H, cx.W
    v = ex.value
    if not isinstance(v, SList) or not hasattr(v, 'incl'):
        return [('C17.body_is_a_filtered_list_of_children', z3.BoolVal(False))]
    k = z3.Int('k!bd')
    child = lambda kk: H.at(s, kk)
    is_item = lambda kk: H.tag(child(kk)) == W.lit('item')
    is_p = lambda kk: H.tag(child(kk)) == W.lit('p')
    el = v.elem_at_base(k)

    def elem_ok(e):
        # e is a decision tree (SIte) over Item objects and strings; every leaf must denote the expected element
        if isinstance(e, SIte):
            return A(Imp(e.cond, elem_ok(e.a)), Imp(z3.Not(e.cond), elem_ok(e.b)))
        if isinstance(e, SObj) and e.cls.name == 'Item':
            return A(is_item(k), ex.st.fields(e)['_xml'].t == child(k))
        if isinstance(e, SStr):
            return A(z3.Not(is_item(k)), e.t == z3.If(text(child(k)) != none_s, text(child(k)), W.lit('')))
        return z3.BoolVal(False)

    return [('C17.body_lists_every_paragraph_text_and_every_item_in_document_order',
             A(v.base.length == H.len(s),
               z3.ForAll([k], Imp(A(0 <= k, k < H.len(s)),
                                  A(v.incl(k) == z3.Or(is_item(k), is_p(k)), Imp(v.incl(k), elem_ok(el)))))))]


regprop('mosromgr.moselements.Story.body', _body_ens, props=('C17', 'C15', 'C12'))


class NoteProp(Contract):
    opaque = False
    props = ('C17',)

    def entry(self, E):
        st = State(L.Heap(0, 0), z3.IntVal(0))
        return st, {'p': SNode(E.W.fresh('p', Node))}

    def requires(self, cx):
        return [('paragraph_with_text', A(cx.node('p') != null, text(cx.node('p')) != none_s))]

    def ensures(self, cx, ex):
        v = ex.value
        return [('C17.technical_note_iff_wrapped_in_round_or_angle_brackets',
                 (v.t if isinstance(v, SBool) else z3.BoolVal(False)) == note_spec(cx.W, text(cx.node('p'))))]

    def raises(self, cx, ex):
        return [('C17.never_raises', z3.BoolVal(False))]


from pyvc.contracts import REGISTRY as _REG
_n = NoteProp()
_n.qualname = 'mosromgr.moselements._is_technical_note'
_REG[_n.qualname] = _n


# ------------------------------------------------------------------ RunningOrder aggregates (C15, C16, C17)
def spec_list(kind, H, xml):
    """the list Story.script / Story.body returns for story element xml at heap H (opaque value for callers)"""
    return L.mkfun('%s_of_%d_%d' % (kind, H.kv, H.tv), Node, L.Obj)(xml)


def _opaque_cases(kind):
    def cases(self, cx):
        o = cx.a['self']
        xml = cx.st.fields(o)['_xml'].t
        return [Case(kind, ret=SOpaque(spec_list(kind, cx.H, xml), kind + '_list'))]
    return cases


for _k in ('script', 'body'):
    _c = _REG['mosromgr.moselements.Story.' + _k]
    type(_c).opaque = True
    type(_c).cases = _opaque_cases(_k)


class ROProp(Contract):
    opaque = False
    props = ('C15', 'C16', 'C12')

    def entry(self, E):
        W = E.W
        st = State(L.Heap(0, 0), z3.IntVal(0))
        ro = SObj(E.repo.cls('RunningOrder'), st.new_obj(None))
        st.objs[ro.oid] = {'_xml': SNode(W.fresh('root', Node)), '_base_tag': NONE}
        return st, {'self': ro}

    def root(self, cx):
        return cx.objs[cx.a['self'].oid]['_xml'].t

    def base(self, cx):
        return cx.H.find(self.root(cx), cx.W.lit('roCreate'))

    def requires(self, cx):
        return ro_inv(cx.W, cx.H, self.root(cx))

    def raises(self, cx, ex):
        return [('C15+C12.never_raises[%s]' % ex.value.name(), z3.BoolVal(False))]

    def n(self, cx):
        return cx.H.falen(self.base(cx), cx.W.lit('story'))

    def story(self, cx, j):
        return cx.H.fanode(self.base(cx), cx.W.lit('story'), j)

    def start(self, cx):
        es = cx.H.find(self.base(cx), cx.W.lit('roEdStart'))
        return z3.Or(es == null, text(es) == none_s), dt_of(text(es))


def _ro_start_ens(self, cx, ex):
    n, v = dt_parts(ex.value)
    sn, sv = self.start(cx)
    return [('C16+C15.running_order_start_is_roEdStart_or_None', A(n == sn, z3.Or(sn, v == sv)))]


regprop('mosromgr.mostypes.RunningOrder.start_time', _ro_start_ens, base=ROProp)


def _story_objs_ok(self, cx, st, v):
    """v: list of Story objects built over exactly the story children, sharing offsets over that same list"""
    H, W = cx.H, cx.W
    j = z3.Int('j!ro')
    n = self.n(cx)
    o = v.elem(j)
    f = st.fields(o)
    d = f['_story_offsets']
    pn, pv = dt_parts(f['_prog_start_time'])
    sn, sv = self.start(cx)
    conj = [v.length == n,
            z3.ForAll([j], Imp(A(0 <= j, j < n), f['_xml'].t == self.story(cx, j))),
            pn == sn, z3.Or(sn, pv == sv)]
    if isinstance(d, SDict):
        lst = d.prefix.lst
        conj.append(A(lst.length == n, z3.ForAll([j], Imp(A(0 <= j, j < n), lst.elem(j).t == self.story(cx, j)))))
    else:
        conj.append(n == 0)
    return A(*conj)


def _ro_stories_ens(self, cx, ex):
    v = ex.value
    if not isinstance(v, SList):
        return [('C15.stories_is_a_list', z3.BoolVal(False))]
    return [('C15+C16.stories_are_the_story_children_in_document_order_with_offsets_over_that_list',
             _story_objs_ok(self, cx, ex.st, v))]


regprop('mosromgr.mostypes.RunningOrder.stories', _ro_stories_ens, base=ROProp)


def _ro_duration_ens(self, cx, ex):
    v = ex.value
    H, W = cx.H, cx.W
    j = z3.Int('j!du')
    n = self.n(cx)
    dn, dv = dur_spec(W, H, self.story(cx, j))
    some_none = z3.Exists([j], A(0 <= j, j < n, dn))
    if isinstance(v, SNone):
        return [('C16.duration_None_only_when_a_story_has_no_duration', some_none)]
    if not isinstance(v, SReal) or not hasattr(v, 'fold'):
        return [('C16.duration_is_the_sum_of_the_story_durations', z3.BoolVal(False))]
    S, xs = v.fold
    en, ev = as_optreal(xs.elem(j))
    return [('C16.duration_is_the_sum_of_the_story_durations_in_order',
             A(xs.length == n, z3.Not(some_none), z3.ForAll([j], Imp(A(0 <= j, j < n), A(z3.Not(en), ev == dv)))))]


regprop('mosromgr.mostypes.RunningOrder.duration', _ro_duration_ens, base=ROProp)


def _ro_end_ens(self, cx, ex):
    n = self.n(cx)
    vn, vv = dt_parts(ex.value)
    st = ex.st
    W, H = cx.W, cx.H
    # any Story object built on this path carries the shared offsets / programme start
    objs = [oid for oid, f in st.objs.items() if '_story_offsets' in f and '_prog_start_time' in f]
    if not objs:
        return [('C16.end_None_only_without_stories', A(vn, n == 0))]
    f0 = st.objs[objs[-1]]
    probe = SObj(cx.E.repo.cls('Story'), st.new_obj(None))
    st.objs[probe.oid] = dict(f0)
    st.objs[probe.oid]['_xml'] = SNode(self.story(cx, n - 1))
    sn, sv = end_spec(W, H, st, probe)
    return [('C16.running_order_ends_when_its_last_story_ends', A(n > 0, vn == sn, z3.Or(sn, vv == sv)))]


regprop('mosromgr.mostypes.RunningOrder.end_time', _ro_end_ens, base=ROProp)


def _ro_concat_ens(kind):
    def ens(self, cx, ex):
        v = ex.value
        xss = getattr(v, 'chained', None)
        if xss is None:
            return [('C17.%s_is_a_concatenation' % kind, z3.BoolVal(False))]
        j = z3.Int('j!cc')
        n = self.n(cx)
        e = xss.elem(j)
        ok = isinstance(e, SOpaque) and e.kind == kind + '_list'
        return [('C17.running_order_%s_is_the_concatenation_of_its_stories_%s_in_running_order' % (kind, kind),
                 A(z3.BoolVal(ok), xss.length == n,
                   z3.ForAll([j], Imp(A(0 <= j, j < n), e.t == spec_list(kind, cx.H, self.story(cx, j)))) if ok else z3.BoolVal(False)))]
    return ens


regprop('mosromgr.mostypes.RunningOrder.script', _ro_concat_ens('script'), base=ROProp, props=('C17', 'C15', 'C12'))
regprop('mosromgr.mostypes.RunningOrder.body', _ro_concat_ens('body'), base=ROProp, props=('C17', 'C15', 'C12'))
