"""C04: body proof of StorySend._convert_story_send_to_story_tag (two loops) against its caller-facing contract."""
import z3
from pyvc import logic as L
from pyvc.logic import Node, Str, null, none_s, text, is_msg, born, orig, cp, forall_nodes, forall_ints
from pyvc.values import *
from pyvc.state import State
from pyvc.contracts import contract, Contract, Case, LoopSpec, REGISTRY
from .common import *
from .merge_story import ConvertStorySend, story_send_shape, list_same

C = REGISTRY['mosromgr.mostypes.StorySend._convert_story_send_to_story_tag']


class RetagLoop(LoopSpec):
    """for item in <copy of storyBody>.findall('storyItem'): item.tag = 'item'"""
    writes_heap = False
    writes_tags = True

    def invariant(self, cx, lp):
        H1, H, k = lp.entry.heap, lp.st.heap, lp.k
        W, lit = cx.W, cx.W.lit
        r = cp(cx.clock + 1, cx.node('ss_tag_orig'))
        sb = H1.find(r, lit('storyBody'))
        x = z3.Const('x!rt', Node)
        done = lambda z: A(H1.mem(sb, z), H1.tag(z) == lit('storyItem'), H1.faidx(sb, lit('storyItem'), z) < k)
        q = z3.Const('q!rt', Node)
        t = z3.Const('t!rt', Str)
        kk = z3.Int('k!rt')
        other = lambda qq: qq != sb      # by tree shape only storyBody has retagged children
        return [('clock', lp.st.clock == lp.entry.clock),
                ('only_the_first_k_storyItems_are_retagged',
                 z3.ForAll([x], H.tag(x) == z3.If(done(x), lit('item'), H1.tag(x)), patterns=[H.tag(x)])),
                ('lookups_elsewhere_unaffected', A(
                    z3.ForAll([q, t], Imp(other(q), H.find(q, t) == H1.find(q, t)), patterns=[H.find(q, t)]),
                    z3.ForAll([q, t], Imp(other(q), H.falen(q, t) == H1.falen(q, t)), patterns=[H.falen(q, t)]),
                    z3.ForAll([q, t, kk], Imp(other(q), H.fanode(q, t, kk) == H1.fanode(q, t, kk)), patterns=[H.fanode(q, t, kk)]),
                    z3.ForAll([q, t, x], Imp(other(q), H.faidx(q, t, x) == H1.faidx(q, t, x)), patterns=[H.faidx(q, t, x)])))]


class SpliceLoop(LoopSpec):
    """for i, child in enumerate(list(storyBody), start=index of storyBody): insert_node(story, child, i)"""
    writes_heap = True
    writes_tags = False

    def invariant(self, cx, lp):
        Hm, H, k = lp.entry.heap, lp.st.heap, lp.k
        W, lit = cx.W, cx.W.lit
        e = cx.clock + 1
        r = cp(e, cx.node('ss_tag_orig'))
        from .roles import found_nodes, enum_start, counter_invariant
        sb = found_nodes(lp.entry)[-1]
        idx = enum_start(lp)
        x, q = z3.Consts('x!sp q!sp', Node)
        kk = z3.Int('k!sp')
        t = z3.Const('t!sp', Str)
        inblk = lambda z: A(Hm.mem(sb, z), Hm.pos(sb, z) < k)
        out = [('clock', lp.st.clock == lp.entry.clock)]
        out.append(('old_children_shifted',
                    z3.ForAll([x], Imp(Hm.mem(r, x), A(H.mem(r, x), H.pos(r, x) == Hm.pos(r, x) + z3.If(Hm.pos(r, x) >= idx, k, 0))),
                              patterns=[Hm.mem(r, x), H.mem(r, x), H.pos(r, x)])))
        out.append(('body_children_in_place',
                    z3.ForAll([x], Imp(inblk(x), A(H.mem(r, x), H.pos(r, x) == idx + Hm.pos(sb, x))),
                              patterns=[Hm.mem(sb, x), H.mem(r, x), H.pos(r, x)])))
        out.append(('only_old_children_and_body_children',
                    z3.ForAll([x], Imp(H.mem(r, x), z3.Or(Hm.mem(r, x), inblk(x))), patterns=[H.mem(r, x)])))
        out.append(('length', H.len(r) == Hm.len(r) + k))
        out += counter_invariant(lp, idx, k)
        out.append(('frame.lists', A(
            z3.ForAll([q, x], Imp(q != r, A(H.mem(q, x) == Hm.mem(q, x), H.pos(q, x) == Hm.pos(q, x))), patterns=[H.mem(q, x), H.pos(q, x)]),
            z3.ForAll([q], Imp(q != r, H.len(q) == Hm.len(q)), patterns=[H.len(q)]),
            z3.ForAll([q, kk], Imp(q != r, H.at(q, kk) == Hm.at(q, kk)), patterns=[H.at(q, kk)]))))
        out.append(('frame.find', A(
            z3.ForAll([q, t], Imp(q != r, H.find(q, t) == Hm.find(q, t)), patterns=[H.find(q, t)]),
            z3.ForAll([q, t], Imp(q != r, H.falen(q, t) == Hm.falen(q, t)), patterns=[H.falen(q, t)]),
            z3.ForAll([q, t, kk], Imp(q != r, H.fanode(q, t, kk) == Hm.fanode(q, t, kk)), patterns=[H.fanode(q, t, kk)]),
            z3.ForAll([q, t, x], Imp(q != r, H.faidx(q, t, x) == Hm.faidx(q, t, x)), patterns=[H.faidx(q, t, x)]))))
        # envelope tags of the story itself are not among the body children, so lookups of them are unaffected
        for tg in ('storyID', 'mosExternalMetadata', 'storyBody'):
            out.append(('find_%s_unaffected' % tg, H.find(r, lit(tg)) == Hm.find(r, lit(tg))))
        out.append(('ownership', z3.ForAll([q, x], Imp(H.mem(q, x), is_msg(q) == is_msg(x)), patterns=[H.mem(q, x)])))
        out.append(('not_linked_to_anything_older', z3.ForAll([q], Imp(born(q) < e, z3.Not(H.mem(q, r))), patterns=[H.mem(q, r)])))
        return out


def _entry(self, E):
    W = E.W
    st = State(L.Heap(0, 0), z3.IntVal(0))
    me = SObj(E.repo.cls('StorySend'), st.new_obj(None))
    st.objs[me.oid] = {'_xml': SNode(W.fresh('mroot', Node)), '_base_tag': NONE}
    return st, {'self': me, 'ss_tag_orig': SNode(W.fresh('roStorySend', Node))}


def _requires(self, cx):
    o = cx.node('ss_tag_orig')
    H = cx.H
    return ([('arg_is_message_element', A(o != null, is_msg(o)))] + story_send_shape(cx.W, H, o) +
            ownership(H) + [('arg_has_no_parent_inside_itself', z3.BoolVal(True))])


def _loop(self, ordinal):
    return {0: RetagLoop(), 1: SpliceLoop()}.get(ordinal)


def _ensures(self, cx, ex):
    """(1) everything the callers are told (ConvertStorySend.cases) holds of the real body;
       (2) C04: the children of storyBody are spliced in place, in order; direct storyItems are renamed item; nothing else changes"""
    W, lit = cx.W, cx.W.lit
    H0, H1 = cx.H, ex.H
    o = cx.node('ss_tag_orig')
    c0 = cx.clock
    e = c0 + 1
    r = cp(e, o)
    v = ex.value
    out = [('returns_the_fresh_copy', v.t == r if isinstance(v, SNode) else z3.BoolVal(False)),
           ('one_allocation', ex.st.clock == e)]
    q, z = z3.Consts('q!cv z!cv', Node)
    t = z3.Const('t!cv', Str)
    pre = lambda n: born(n) <= c0
    out.append(('C04+C13.nothing_that_existed_before_is_touched',
                A(z3.ForAll([q, z], Imp(pre(q), A(H1.mem(q, z) == H0.mem(q, z), H1.pos(q, z) == H0.pos(q, z)))),
                  z3.ForAll([q], Imp(pre(q), A(H1.len(q) == H0.len(q), H1.tag(q) == H0.tag(q)))),
                  z3.ForAll([q, t], Imp(pre(q), H1.find(q, t) == H0.find(q, t))))))
    out.append(('C13.ownership', z3.ForAll([q, z], Imp(H1.mem(q, z), is_msg(q) == is_msg(z)))))
    out.append(('C04.result_is_a_story', H1.tag(r) == lit('story')))
    out.append(('C13.result_is_not_linked_to_anything_that_existed', z3.ForAll([q], Imp(born(q) <= c0, z3.Not(H1.mem(q, r))))))
    out.append(('C04.storyID_is_the_sent_one', A(H1.find(r, lit('storyID')) == cp(e, H0.find(o, lit('storyID'))),
                                                 H1.find(r, lit('storyID')) != null,
                                                 text(H1.find(r, lit('storyID'))) == text(H0.find(o, lit('storyID'))))))
    out.append(('C04+C15.timing_metadata_is_the_sent_one', timing_ok(W, H1, r)))
    out.append(('C04+C15.items_have_itemID', z3.ForAll([z], Imp(A(H1.mem(r, z), H1.tag(z) == lit('item')), H1.find(z, lit('itemID')) != null))))
    # ---- C04 proper: the spliced child sequence
    sb0 = H0.find(o, lit('storyBody'))
    i0 = H0.pos(o, sb0)
    n = H0.len(sb0)
    out.append(('C04.children_before_and_after_storyBody_keep_their_place_around_the_spliced_body',
                z3.ForAll([z], Imp(A(H0.mem(o, z), z != sb0),
                                   A(H1.mem(r, cp(e, z)), H1.pos(r, cp(e, z)) == H0.pos(o, z) + z3.If(H0.pos(o, z) > i0, n - 1, 0))))))
    out.append(('C04.children_of_storyBody_are_spliced_in_place_in_their_original_order',
                z3.ForAll([z], Imp(H0.mem(sb0, z), A(H1.mem(r, cp(e, z)), H1.pos(r, cp(e, z)) == i0 + H0.pos(sb0, z))))))
    out.append(('C04.storyBody_itself_is_gone_and_nothing_else_is_added',
                A(z3.Not(H1.mem(r, cp(e, sb0))),
                  z3.ForAll([z], Imp(H1.mem(r, z), A(born(z) == e, z == cp(e, orig(z)),
                                                     z3.Or(A(H0.mem(o, orig(z)), orig(z) != sb0), H0.mem(sb0, orig(z)))))))))
    out.append(('C04.only_direct_storyItem_children_of_storyBody_are_renamed_item',
                z3.ForAll([z], Imp(A(born(z) == e, z == cp(e, orig(z)), is_msg(orig(z)), z != r),
                                   H1.tag(z) == z3.If(A(H0.mem(sb0, orig(z)), H0.tag(orig(z)) == lit('storyItem')), lit('item'), H0.tag(orig(z)))))))
    return out


def _raises(self, cx, ex):
    return [('C12+C04.conversion_never_raises[%s]' % ex.value.name(), z3.BoolVal(False))]


T = type(C)
T.entry, T.requires, T.loop, T.ensures, T.raises = _entry, _requires, _loop, _ensures, _raises
T.props = ('C04', 'C12', 'C13')
T.body_proved = True
