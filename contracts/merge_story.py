"""Contracts of the story-level merges (C01, C03, C05, C06, C12, C13)."""
import z3
from pyvc import logic as L
from pyvc.logic import Node, Str, null, none_s, text, is_msg, born, orig, cp, forall_nodes, forall_ints
from pyvc.values import *
from pyvc.contracts import contract, Contract, Case, LoopSpec
from .common import *


def list_same(H0, H1, P):
    return forall_nodes(1, lambda z: A(H1.mem(P, z) == H0.mem(P, z), Imp(H0.mem(P, z), H1.pos(P, z) == H0.pos(P, z))))


def resolves(V, idv, s):
    """story s of the running order is what the reference idv names (a blank reference names nothing)"""
    return A(idv != none_s, V.is_story(s), V.sid(s) == idv)


def none_resolves(V, idv):
    return forall_nodes(1, lambda s: z3.Not(resolves(V, idv, s)), patterns=lambda s: [V.H.mem(V.base, s)])


def placed_before(V0, H1, s, t):
    """every other story is before s afterwards iff it was before t"""
    P = V0.base
    return forall_nodes(1, lambda z: Imp(A(V0.is_story(z), z != s),
                                         (H1.pos(P, z) < H1.pos(P, s)) == (V0.H.pos(P, z) < V0.H.pos(P, t))))


def placed_last(V0, H1, s):
    P = V0.base
    return forall_nodes(1, lambda z: Imp(A(V0.is_story(z), z != s), H1.pos(P, z) < H1.pos(P, s)))


@contract('mosromgr.mostypes.StoryMove.merge')
class StoryMoveMerge(MergeContract):
    props = ('C01', 'C03', 'C05', 'C06', 'C07', 'C12', 'C13', 'C14', 'C15')
    cls_name = 'StoryMove'
    base_tag_name = 'roStoryMove'
    frame = 'base'

    def ids(self, cx):
        mb = self.mb(cx)
        lit = cx.W.lit
        H = cx.H
        n = H.falen(mb, lit('storyID'))
        idf = lambda j: text(H.fanode(mb, lit('storyID'), j))
        return n, idf

    def ensures(self, cx, ex):
        V0, H0, H1 = self.V0(cx), cx.H, ex.H
        P = V0.base
        n, idf = self.ids(cx)
        src_id, tgt_id = idf(0), idf(1)
        has_target = A(n >= 2, tgt_id != none_s)
        uniq = unique_story_ids(V0)
        out = self.std_normal(cx, ex)
        out.append(('C01.move_never_adds_or_loses_a_story', members_same(H0, H1, P)))
        out.append(('C01.moved_immediately_before_target',
                    forall_nodes(2, lambda s, t: Imp(A(uniq, n >= 1, has_target, resolves(V0, src_id, s), resolves(V0, tgt_id, t), s != t),
                                                     placed_before(V0, H1, s, t)))))
        out.append(('C01.moved_to_end_when_target_blank_or_absent',
                    forall_nodes(1, lambda s: Imp(A(uniq, n >= 1, z3.Not(has_target), resolves(V0, src_id, s)),
                                                  placed_last(V0, H1, s)))))
        out.append(('C01+C03.everything_else_keeps_its_order',
                    keep_order(H0, H1, P, lambda z: A(V0.is_story(z), V0.sid(z) == src_id))))
        out.append(('C01.source_equals_target_is_noop',
                    forall_nodes(1, lambda s: Imp(A(uniq, n >= 2, resolves(V0, src_id, s), src_id == tgt_id), list_same(H0, H1, P)))))
        out.append(('C03.unresolvable_source_is_inert',
                    Imp(z3.Or(n < 1, none_resolves(V0, src_id)), list_same(H0, H1, P))))
        out.append(('C03.unresolvable_target_is_inert',
                    Imp(A(has_target, none_resolves(V0, tgt_id)), list_same(H0, H1, P))))
        out.append(('C06.no_warning_when_applied', z3.BoolVal(ex.st.warns == [])))
        return out

    def raises(self, cx, ex):
        V0 = self.V0(cx)
        n, idf = self.ids(cx)
        src_id, tgt_id = idf(0), idf(1)
        has_target = A(n >= 2, tgt_id != none_s)
        out = self.std_raise(cx, ex)
        # a message whose references resolve must be applied, not rejected
        out.append(('C01.no_error_when_references_resolve',
                    z3.Not(A(n >= 1, z3.Not(none_resolves(V0, src_id)), z3.Or(z3.Not(has_target), z3.Not(none_resolves(V0, tgt_id)))))))
        return out


# ------------------------------------------------------------------ roStoryAppend
from .loops import InsertCopies


class CarriedStories:
    """the <story> children of the message base tag (or of element_source)"""
    source_parent_tag = None     # None: base tag itself; else 'element_source'

    def carried_parent(self, cx):
        mb = self.mb(cx)
        if self.source_parent_tag:
            return cx.H.find(mb, cx.W.lit(self.source_parent_tag))
        return mb

    def carried(self, cx, j):
        return cx.H.fanode(self.carried_parent(cx), cx.W.lit('story'), j)

    def n_carried(self, cx):
        return cx.H.falen(self.carried_parent(cx), cx.W.lit('story'))

    def carried_shape(self, cx):
        H, lit = cx.H, cx.W.lit
        cp_ = self.carried_parent(cx)
        return [('Shape.carried_stories_have_storyID',
                 forall_nodes(1, lambda s: Imp(A(H.mem(cp_, s), H.tag(s) == lit('story')), H.find(s, lit('storyID')) != null),
                              patterns=lambda s: [H.mem(cp_, s)])),
                ('Shape.carried_story_durations_numeric',
                 forall_nodes(1, lambda s: Imp(A(H.mem(cp_, s), H.tag(s) == lit('story')), timing_ok(cx.W, H, s)),
                              patterns=lambda s: [H.mem(cp_, s)])),
                ('Shape.carried_items_have_itemID',
                 forall_nodes(2, lambda s, i: Imp(A(H.mem(cp_, s), H.tag(s) == lit('story'), H.mem(s, i), H.tag(i) == lit('item')),
                                                  H.find(i, lit('itemID')) != null),
                              patterns=lambda s, i: [z3.MultiPattern(H.mem(cp_, s), H.mem(s, i))]))]


class StoryInsertLoop(InsertCopies):
    def parent(self, cx, lp): return self.owner.V0(cx).base
    def carried(self, cx, lp, j): return self.owner.carried(cx, j)
    def ctag(self, cx): return cx.W.lit('story')


@contract('mosromgr.mostypes.StoryAppend.merge')
class StoryAppendMerge(CarriedStories, MergeContract):
    props = ('C01', 'C03', 'C04', 'C05', 'C06', 'C07', 'C12', 'C13', 'C14', 'C15')
    cls_name = 'StoryAppend'
    base_tag_name = 'roStoryAppend'
    frame = 'base'

    def shape(self, cx):
        return self.carried_shape(cx)

    def loop(self, ordinal):
        if ordinal == 0:
            lp = StoryInsertLoop(self)
            lp.idx0 = lambda cx, l: cx.H.len(self.V0(cx).base)
            return lp

    def ensures(self, cx, ex):
        V0, H0, H1 = self.V0(cx), cx.H, ex.H
        P = V0.base
        n = self.n_carried(cx)
        c0 = cx.clock
        newn = lambda j: cp(c0 + j + 1, self.carried(cx, j))
        out = self.std_normal(cx, ex)
        out.append(('C01+C03.old_children_keep_order', keep_order(H0, H1, P, lambda z: z3.BoolVal(False))))
        out.append(('C01+C04.appended_in_message_order_after_everything',
                    forall_ints(1, lambda j: Imp(A(0 <= j, j < n),
                                                 A(H1.mem(P, newn(j)), H1.tag(newn(j)) == cx.W.lit('story'),
                                                   forall_nodes(1, lambda z: Imp(H0.mem(P, z), H1.pos(P, z) < H1.pos(P, newn(j)))),
                                                   forall_ints(1, lambda j2: Imp(A(0 <= j2, j2 < j), H1.pos(P, newn(j2)) < H1.pos(P, newn(j)))))))))
        out.append(('C01.no_other_story_added',
                    forall_nodes(1, lambda z: Imp(H1.mem(P, z), z3.Or(H0.mem(P, z),
                                                                      A(c0 < born(z), born(z) <= c0 + n, z == newn(born(z) - c0 - 1)))))))
        out.append(('C06.no_warning_when_applied', z3.BoolVal([w for w in ex.st.warns if not w.startswith('*')] == [])))
        return out


# ------------------------------------------------------------------ roStoryDelete
from .loops import DeleteByIds


class StoryDeleteLoop(DeleteByIds):
    category = 'StoryNotFoundWarning'
    def parent(self, cx, lp): return self.owner.V0(cx).base
    def ctag(self, cx): return cx.W.lit('story')
    def idtag(self, cx): return cx.W.lit('storyID')
    def ident(self, cx, lp, j): return self.owner.ident(cx, j)


class DeleteStoriesContract(MergeContract):
    """shared by roStoryDelete and roElementAction DELETE (stories)"""
    frame = 'base'

    def ensures(self, cx, ex):
        V0, H0, H1 = self.V0(cx), cx.H, ex.H
        P = V0.base
        n = self.n_ids(cx)
        ident = lambda j: self.ident(cx, j)
        uniq = unique_story_ids(V0)
        out = self.std_normal(cx, ex)
        lp = ex.loop(0)
        if lp is None or getattr(lp, 'broke', False):
            out.append(('C06.every_named_story_is_processed', z3.BoolVal(False)))
            return out
        j = z3.Int('j!e')
        out.append(('C01.every_named_story_is_gone',
                    Imp(uniq, z3.ForAll([j], Imp(A(0 <= j, j < n, ident(j) != none_s),
                                                 forall_nodes(1, lambda z: Imp(A(V0.is_story(z), V0.sid(z) == ident(j)), z3.Not(H1.mem(P, z)))))))))
        named = lambda z: A(V0.is_story(z), z3.Exists([j], A(0 <= j, j < n, ident(j) != none_s, V0.sid(z) == ident(j))))
        out.append(('C01+C03.nothing_else_removed_and_order_kept',
                    A(forall_nodes(1, lambda z: A(Imp(H1.mem(P, z), H0.mem(P, z)),
                                                  Imp(A(H0.mem(P, z), z3.Not(named(z))), H1.mem(P, z)))),
                      forall_nodes(2, lambda z, w: Imp(A(H1.mem(P, z), H1.mem(P, w)),
                                                       (H1.pos(P, z) < H1.pos(P, w)) == (H0.pos(P, z) < H0.pos(P, w)))))))
        return out


@contract('mosromgr.mostypes.StoryDelete.merge')
class StoryDeleteMerge(DeleteStoriesContract):
    props = ('C01', 'C03', 'C05', 'C06', 'C07', 'C12', 'C13', 'C14', 'C15')
    cls_name = 'StoryDelete'
    base_tag_name = 'roStoryDelete'

    def n_ids(self, cx):
        return cx.H.falen(self.mb(cx), cx.W.lit('storyID'))

    def ident(self, cx, j):
        return text(cx.H.fanode(self.mb(cx), cx.W.lit('storyID'), j))

    def loop(self, ordinal):
        if ordinal == 0:
            return StoryDeleteLoop(self)


# ------------------------------------------------------------------ roStoryInsert / EA INSERT
class SkippingStoryInsertLoop(StoryInsertLoop):
    """insert loop that skips carried stories whose ID is already in the running order"""
    skipping = True
    index_var = 'story_index'

    def index_name(self, cx, lp):
        from .roles import unique_local
        if 'index_var' not in cx.data:
            cx.data['index_var'] = unique_local(lp, SInt)
        return cx.data['index_var']

    def idx0(self, cx, lp):
        return lp.entry.locals[self.index_name(cx, lp)].t

    def ghost_vars(self, cx):
        d = super().ghost_vars(cx)
        d['dw'] = z3.ArraySort(L.I, Node)       # witness story for a skipped duplicate
        return d

    def ghost_init(self, cx, lp):
        d = super().ghost_init(cx, lp)
        d['dw'] = z3.K(L.I, null)
        return d

    def cid(self, cx, lp, j):
        return text(cx.H.find(self.carried(cx, lp, j), cx.W.lit('storyID')))

    def extra_invariant(self, cx, lp):
        V0 = self.owner.V0(cx)
        k = lp.k
        g = lp.st.ghost
        dw = lambda j: z3.Select(g['dw'], j)
        j = z3.Int('j!dw')
        cur = lp.st.locals[self.index_name(cx, lp)]
        out = [('index_var', cur.t == self.idx0(cx, lp) + self.ins(g, k))]
        out.append(('ghost.skipped_iff_duplicate',
                    z3.ForAll([j], Imp(A(0 <= j, j < k),
                                       A(Imp(self.skipped(g, j), A(V0.is_story(dw(j)), V0.sid(dw(j)) == self.cid(cx, lp, j))),
                                         Imp(z3.Not(self.skipped(g, j)),
                                             forall_nodes(1, lambda s: Imp(V0.is_story(s), V0.sid(s) != self.cid(cx, lp, j)))))),
                              patterns=[self.skipped(g, j)])))
        return out

    def ghost_update(self, cx, lp):
        k = lp.k
        c0 = lp.entry.clock
        inserted = any(w[0] == 'kids' for w in lp.st.writes[len(lp.head.writes):])
        V0 = self.owner.V0(cx)
        g = lp.st.ghost
        insk = z3.Select(g['ins'], k)
        if inserted:
            return {'skipped': z3.Store(g['skipped'], k, False), 'ins': z3.Store(g['ins'], k + 1, insk + 1),
                    'jof': z3.Store(g['jof'], c0 + insk + 1, k)}
        body = lambda x: A(V0.is_story(x), V0.sid(x) == self.cid(cx, lp, k))
        w = cx.E.witness(lp.st, 'duplicate_exists', Node, body)
        return {'skipped': z3.Store(g['skipped'], k, True), 'ins': z3.Store(g['ins'], k + 1, insk),
                'dw': z3.Store(g['dw'], k, w)}

    def iteration(self, cx, lp):
        V0 = self.owner.V0(cx)
        w = lp.st.warns
        inserted = any(x[0] == 'kids' for x in lp.st.writes[len(lp.head.writes):])
        s = z3.Const('s!it', Node)
        isdup = z3.Exists([s], A(V0.is_story(s), V0.sid(s) == self.cid(cx, lp, lp.k)))
        if w == [] and inserted:
            return [('C06.no_warning_means_inserted_and_not_duplicate', z3.Not(isdup))]
        if w == ['DuplicateStoryWarning'] and not inserted:
            return [('C06.exactly_one_DuplicateStoryWarning_only_for_a_duplicate', isdup)]
        return [('C06.one_warning_per_skipped_story_none_otherwise', z3.BoolVal(False))]


class InsertStoriesContract(CarriedStories, MergeContract):
    """shared by roStoryInsert and roElementAction INSERT (stories)"""
    frame = 'base'
    blank_target_means_end = False

    def shape(self, cx):
        return self.carried_shape(cx)

    def loop(self, ordinal):
        if ordinal == 0:
            return SkippingStoryInsertLoop(self)

    def target_id(self, cx):
        raise NotImplementedError

    def ensures(self, cx, ex):
        V0, H0, H1 = self.V0(cx), cx.H, ex.H
        P = V0.base
        n = self.n_carried(cx)
        c0 = cx.clock
        lp = ex.loop(0)
        L0 = self.loop(0)
        out = self.std_normal(cx, ex)
        if lp is None or getattr(lp, 'broke', False):
            out.append(('C06.every_carried_story_is_processed', z3.BoolVal(False)))
            return out
        g = lp.st.ghost
        ins, sk = (lambda j: L0.ins(g, j)), (lambda j: L0.skipped(g, j))
        newn = lambda j: cp(c0 + ins(j) + 1, self.carried(cx, j))
        cid = lambda j: text(H0.find(self.carried(cx, j), cx.W.lit('storyID')))
        tid = self.target_id(cx)
        uniq = unique_story_ids(V0)
        j, j2 = z3.Ints('j!e j2!e')
        out.append(('C01+C03.old_children_keep_order', keep_order(H0, H1, P, lambda z: z3.BoolVal(False))))
        blk = lambda t_before: z3.ForAll([j], Imp(A(0 <= j, j < n, z3.Not(sk(j))),
                                                  A(H1.mem(P, newn(j)), H1.tag(newn(j)) == cx.W.lit('story'),
                                                    text(H1.find(newn(j), cx.W.lit('storyID'))) == cid(j),
                                                    forall_nodes(1, lambda z: Imp(H0.mem(P, z), (H1.pos(P, z) < H1.pos(P, newn(j))) == t_before(z))),
                                                    z3.ForAll([j2], Imp(A(0 <= j2, j2 < j, z3.Not(sk(j2))), H1.pos(P, newn(j2)) < H1.pos(P, newn(j)))))))
        out.append(('C01+C04.inserted_in_message_order_immediately_before_target',
                    forall_nodes(1, lambda t: Imp(A(uniq, resolves(V0, tid, t)), blk(lambda z: H0.pos(P, z) < H0.pos(P, t))))))
        if self.blank_target_means_end:
            out.append(('C01+C04.inserted_at_end_when_target_blank', Imp(tid == none_s, blk(lambda z: z3.BoolVal(True)))))
        out.append(('C01.skipped_exactly_the_duplicates',
                    z3.ForAll([j], Imp(A(0 <= j, j < n),
                                       sk(j) == z3.Exists([z3.Const('s!sk', Node)],
                                                          A(V0.is_story(z3.Const('s!sk', Node)), V0.sid(z3.Const('s!sk', Node)) == cid(j)))))))
        out.append(('C01.no_other_story_added',
                    forall_nodes(1, lambda z: Imp(H1.mem(P, z),
                                                  z3.Or(H0.mem(P, z),
                                                        z3.Exists([j], A(0 <= j, j < n, z3.Not(sk(j)), z == newn(j))))))))
        out.append(('C03.unresolvable_target_is_inert',
                    Imp(A(none_resolves(V0, tid), z3.BoolVal(not self.blank_target_means_end) if not self.blank_target_means_end else tid != none_s),
                        list_same(H0, H1, P))))
        return out

    def raises(self, cx, ex):
        V0 = self.V0(cx)
        tid = self.target_id(cx)
        out = self.std_raise(cx, ex)
        ok = z3.Not(none_resolves(V0, tid))
        if self.blank_target_means_end:
            ok = z3.Or(ok, tid == none_s)
        out.append(('C01.no_error_when_references_resolve', z3.Not(ok)))
        return out


@contract('mosromgr.mostypes.StoryInsert.merge')
class StoryInsertMerge(InsertStoriesContract):
    props = ('C01', 'C03', 'C04', 'C05', 'C06', 'C07', 'C12', 'C13', 'C14', 'C15')
    cls_name = 'StoryInsert'
    base_tag_name = 'roStoryInsert'

    def target_id(self, cx):
        return text(cx.H.find(self.mb(cx), cx.W.lit('storyID')))

    def shape(self, cx):
        return self.carried_shape(cx) + [('Shape.target_storyID_tag_present', cx.H.find(self.mb(cx), cx.W.lit('storyID')) != null)]


# ------------------------------------------------------------------ roElementAction DELETE (stories)
@contract('mosromgr.mostypes.EAStoryDelete.merge')
class EAStoryDeleteMerge(DeleteStoriesContract):
    props = ('C01', 'C03', 'C05', 'C06', 'C07', 'C12', 'C13', 'C14', 'C15')
    cls_name = 'EAStoryDelete'
    base_tag_name = 'roElementAction'

    def src(self, cx):
        return cx.H.find(self.mb(cx), cx.W.lit('element_source'))

    def shape(self, cx):
        return [('Shape.element_source_present', self.src(cx) != null)]

    def n_ids(self, cx):
        return cx.H.falen(self.src(cx), cx.W.lit('storyID'))

    def ident(self, cx, j):
        return text(cx.H.fanode(self.src(cx), cx.W.lit('storyID'), j))

    def loop(self, ordinal):
        if ordinal == 0:
            return StoryDeleteLoop(self)


# ------------------------------------------------------------------ roStoryReplace / EA REPLACE (stories)
class ReplaceLoop(StoryInsertLoop):
    def idx0(self, cx, lp):
        from .roles import enum_start
        return enum_start(lp)


class ReplaceStoriesContract(CarriedStories, MergeContract):
    frame = 'base'

    def loop(self, ordinal):
        if ordinal == 0:
            return ReplaceLoop(self)

    def ensures(self, cx, ex):
        V0, H0, H1 = self.V0(cx), cx.H, ex.H
        P = V0.base
        n = self.n_carried(cx)
        c0 = cx.clock
        out = self.std_normal(cx, ex)
        lp = ex.loop(0)
        if lp is None or getattr(lp, 'broke', False):
            out.append(('C06.every_carried_story_is_processed', z3.BoolVal(False)))
            return out
        newn = lambda j: cp(c0 + j + 1, self.carried(cx, j))
        cid = lambda j: text(H0.find(self.carried(cx, j), cx.W.lit('storyID')))
        tid = self.target_id(cx)
        uniq = unique_story_ids(V0)
        j, j2 = z3.Ints('j!e j2!e')
        named = lambda z: A(V0.is_story(z), tid != none_s, V0.sid(z) == tid)
        out.append(('C01+C03.everything_else_keeps_its_order', keep_order(H0, H1, P, named)))
        out.append(('C01+C04.replacements_occupy_the_replaced_position_in_message_order',
                    forall_nodes(1, lambda t: Imp(A(uniq, resolves(V0, tid, t)),
                                                  A(z3.Not(H1.mem(P, t)),
                                                    z3.ForAll([j], Imp(A(0 <= j, j < n),
                                                                       A(H1.mem(P, newn(j)), H1.tag(newn(j)) == cx.W.lit('story'),
                                                                         text(H1.find(newn(j), cx.W.lit('storyID'))) == cid(j),
                                                                         forall_nodes(1, lambda z: Imp(A(H0.mem(P, z), z != t),
                                                                                                       (H1.pos(P, z) < H1.pos(P, newn(j))) == (H0.pos(P, z) < H0.pos(P, t)))),
                                                                         z3.ForAll([j2], Imp(A(0 <= j2, j2 < j), H1.pos(P, newn(j2)) < H1.pos(P, newn(j))))))))))))
        out.append(('C01.no_other_story_added',
                    forall_nodes(1, lambda z: Imp(H1.mem(P, z), z3.Or(H0.mem(P, z), A(c0 < born(z), born(z) <= c0 + n, z == newn(born(z) - c0 - 1)))))))
        out.append(('C03.unresolvable_target_is_inert', Imp(none_resolves(V0, tid), list_same(H0, H1, P))))
        out.append(('C06.no_warning_when_applied', z3.BoolVal([w for w in ex.st.warns if not w.startswith('*')] == [])))
        return out

    def raises(self, cx, ex):
        V0 = self.V0(cx)
        out = self.std_raise(cx, ex)
        out.append(('C01.no_error_when_references_resolve',
                    z3.Not(A(z3.Not(none_resolves(V0, self.target_id(cx))), self.n_carried(cx) >= 1))))
        return out


@contract('mosromgr.mostypes.StoryReplace.merge')
class StoryReplaceMerge(ReplaceStoriesContract):
    props = ('C01', 'C03', 'C04', 'C05', 'C06', 'C07', 'C12', 'C13', 'C14', 'C15')
    cls_name = 'StoryReplace'
    base_tag_name = 'roStoryReplace'

    def target_id(self, cx):
        return text(cx.H.find(self.mb(cx), cx.W.lit('storyID')))

    def shape(self, cx):
        return self.carried_shape(cx) + [('Shape.target_storyID_tag_present', cx.H.find(self.mb(cx), cx.W.lit('storyID')) != null)]


class EATarget:
    """roElementAction: target ids live in <element_target>, carried elements in <element_source>"""
    source_parent_tag = 'element_source'

    def tgt(self, cx):
        return cx.H.find(self.mb(cx), cx.W.lit('element_target'))

    def target_id(self, cx):
        return text(cx.H.find(self.tgt(cx), cx.W.lit('storyID')))


@contract('mosromgr.mostypes.EAStoryReplace.merge')
class EAStoryReplaceMerge(EATarget, ReplaceStoriesContract):
    props = ('C01', 'C03', 'C04', 'C05', 'C06', 'C07', 'C12', 'C13', 'C14', 'C15')
    cls_name = 'EAStoryReplace'
    base_tag_name = 'roElementAction'

    def shape(self, cx):
        H, lit = cx.H, cx.W.lit
        return self.carried_shape(cx) + [
            ('Shape.element_target_with_storyID', A(self.tgt(cx) != null, H.find(self.tgt(cx), lit('storyID')) != null)),
            ('Shape.element_source_present', self.carried_parent(cx) != null),
            ('Shape.at_least_one_replacement_story', self.n_carried(cx) >= 1)]


@contract('mosromgr.mostypes.EAStoryInsert.merge')
class EAStoryInsertMerge(EATarget, InsertStoriesContract):
    props = ('C01', 'C03', 'C04', 'C05', 'C06', 'C07', 'C12', 'C13', 'C14', 'C15')
    cls_name = 'EAStoryInsert'
    base_tag_name = 'roElementAction'
    blank_target_means_end = True

    def target_id(self, cx):
        # absent element_target / absent storyID tag / blank storyID all mean "no target": id None
        H, lit = cx.H, cx.W.lit
        return z3.If(z3.Or(self.tgt(cx) == null, H.find(self.tgt(cx), lit('storyID')) == null), none_s,
                     text(H.find(self.tgt(cx), lit('storyID'))))

    def shape(self, cx):
        return self.carried_shape(cx) + [('Shape.element_source_present', self.carried_parent(cx) != null),
                                         ('Shape.element_target_present', self.tgt(cx) != null)]


# ------------------------------------------------------------------ roElementAction SWAP (stories)
@contract('mosromgr.mostypes.EAStorySwap.merge')
class EAStorySwapMerge(MergeContract):
    props = ('C01', 'C03', 'C05', 'C06', 'C07', 'C12', 'C13', 'C14', 'C15')
    cls_name = 'EAStorySwap'
    base_tag_name = 'roElementAction'
    frame = 'base'

    def src(self, cx):
        return cx.H.find(self.mb(cx), cx.W.lit('element_source'))

    def ident(self, cx, j):
        return text(cx.H.fanode(self.src(cx), cx.W.lit('storyID'), j))

    def shape(self, cx):
        return [('Shape.element_source_with_exactly_two_storyIDs',
                 A(self.src(cx) != null, cx.H.falen(self.src(cx), cx.W.lit('storyID')) == 2))]

    def ensures(self, cx, ex):
        V0, H0, H1 = self.V0(cx), cx.H, ex.H
        P = V0.base
        ida, idb = self.ident(cx, 0), self.ident(cx, 1)
        uniq = unique_story_ids(V0)
        out = self.std_normal(cx, ex)
        out.append(('C01.swap_never_adds_or_loses_a_story', members_same(H0, H1, P)))
        out.append(('C01.swapped_stories_exchange_positions',
                    forall_nodes(2, lambda a, b: Imp(A(uniq, resolves(V0, ida, a), resolves(V0, idb, b), a != b),
                                                     A(H1.pos(P, a) == H0.pos(P, b), H1.pos(P, b) == H0.pos(P, a))))))
        out.append(('C01+C03.everything_else_stays_where_it_was',
                    forall_nodes(1, lambda z: Imp(A(H0.mem(P, z), z3.Not(A(V0.is_story(z), z3.Or(V0.sid(z) == ida, V0.sid(z) == idb)))),
                                                  A(H1.mem(P, z), H1.pos(P, z) == H0.pos(P, z))))))
        out.append(('C03.unresolvable_operand_is_inert',
                    Imp(z3.Or(none_resolves(V0, ida), none_resolves(V0, idb)), list_same(H0, H1, P))))
        out.append(('C06.no_warning_when_applied', z3.BoolVal(ex.st.warns == [])))
        return out

    def raises(self, cx, ex):
        V0 = self.V0(cx)
        ida, idb = self.ident(cx, 0), self.ident(cx, 1)
        out = self.std_raise(cx, ex)
        out.append(('C01.no_error_when_references_resolve',
                    z3.Not(A(z3.Not(none_resolves(V0, ida)), z3.Not(none_resolves(V0, idb)), ida != idb))))
        return out


# ------------------------------------------------------------------ roStorySend
def story_send_shape(W, H, mb):
    """schema shape of <roStorySend>: storyID and storyBody present; the children of storyBody are
    paragraphs / storyItems (each storyItem with an itemID), no envelope tags among them"""
    lit = W.lit
    sb = H.find(mb, lit('storyBody'))
    return [
        ('Shape.storyID_tag_present', H.find(mb, lit('storyID')) != null),
        ('Shape.storyBody_present', sb != null),
        ('Shape.storyItems_have_itemID',
         forall_nodes(1, lambda i: Imp(A(H.mem(sb, i), H.tag(i) == lit('storyItem')), H.find(i, lit('itemID')) != null),
                      patterns=lambda i: [H.mem(sb, i)])),
        ('Shape.storyBody_children_are_body_elements',
         forall_nodes(1, lambda i: Imp(H.mem(sb, i), A(H.tag(i) != lit('storyID'), H.tag(i) != lit('mosExternalMetadata'),
                                                        H.tag(i) != lit('item'), H.tag(i) != lit('storyBody'))),
                      patterns=lambda i: [H.mem(sb, i)])),
        ('Shape.no_item_outside_storyBody',
         forall_nodes(1, lambda i: Imp(H.mem(mb, i), H.tag(i) != lit('item')), patterns=lambda i: [H.mem(mb, i)])),
        ('Shape.durations_numeric', timing_ok(W, H, mb)),
        # any parsed document is a tree: an element has one parent
        ('Shape.message_is_a_tree',
         forall_nodes(3, lambda p, q, x: Imp(A(is_msg(x), H.mem(p, x), H.mem(q, x)), p == q),
                      patterns=lambda p, q, x: [z3.MultiPattern(H.mem(p, x), H.mem(q, x))])),
    ]


@contract('mosromgr.mostypes.StorySend._convert_story_send_to_story_tag')
class ConvertStorySend(Contract):
    """caller-facing contract; the body proof (two loops, C04) is in merge_convert.py"""
    props = ()
    opaque = True
    body_proved = False      # caller-facing contract only (C04 body proof not built yet) -> reported as assumed

    def requires(self, cx):
        o = cx.node('ss_tag_orig')
        return [('arg_is_message_element', A(o != null, is_msg(o)))] + story_send_shape(cx.W, cx.H, o)

    def cases(self, cx):
        o = cx.node('ss_tag_orig')
        H, W, lit = cx.H, cx.W, cx.W.lit
        c0 = cx.clock
        e = c0 + 1
        r = cp(e, o)
        H2 = L.Heap(L.nv(), L.nv())
        q, z = z3.Consts('q!cv z!cv', Node)
        t = z3.Const('t!cv', Str)
        kk = z3.Int('k!cv')
        pre = lambda n: born(n) <= c0
        facts = [
            # nothing that existed before is touched
            z3.ForAll([q, z], Imp(pre(q), A(H2.mem(q, z) == H.mem(q, z), H2.pos(q, z) == H.pos(q, z))), patterns=[H2.mem(q, z), H2.pos(q, z), H.mem(q, z)]),
            z3.ForAll([q], Imp(pre(q), A(H2.len(q) == H.len(q), H2.tag(q) == H.tag(q))), patterns=[H2.len(q), H2.tag(q)]),
            z3.ForAll([q, kk], Imp(pre(q), H2.at(q, kk) == H.at(q, kk)), patterns=[H2.at(q, kk)]),
            z3.ForAll([q, t], Imp(pre(q), A(H2.find(q, t) == H.find(q, t), H2.falen(q, t) == H.falen(q, t))), patterns=[H2.find(q, t), H2.falen(q, t)]),
            z3.ForAll([q, t, kk], Imp(pre(q), H2.fanode(q, t, kk) == H.fanode(q, t, kk)), patterns=[H2.fanode(q, t, kk)]),
            z3.ForAll([q, t, z], Imp(pre(q), H2.faidx(q, t, z) == H.faidx(q, t, z)), patterns=[H2.faidx(q, t, z)]),
            z3.ForAll([q, z], Imp(H2.mem(q, z), is_msg(q) == is_msg(z)), patterns=[H2.mem(q, z)]),
            # the result: a fresh <story> that is not linked anywhere
            H2.tag(r) == lit('story'),
            z3.ForAll([q], Imp(born(q) <= c0, z3.Not(H2.mem(q, r))), patterns=[H2.mem(q, r)]),
            H2.find(r, lit('storyID')) == cp(e, H.find(o, lit('storyID'))),
            H2.find(r, lit('storyID')) != null,
            text(H2.find(r, lit('storyID'))) == text(H.find(o, lit('storyID'))),
            timing_ok(W, H2, r),
            z3.ForAll([z], Imp(A(H2.mem(r, z), H2.tag(z) == lit('item')), H2.find(z, lit('itemID')) != null), patterns=[H2.mem(r, z)]),
        ]

        def effect(st):
            st.clock = e
            st.heap = H2
            st.versions.append((H2, e))
            st.writes.append(('alloc', r, H, None))

        return [Case('converted', ret=SNode(r), assume=facts, effect=effect)]


@contract('mosromgr.mostypes.StorySend.merge')
class StorySendMerge(MergeContract):
    props = ('C01', 'C03', 'C04', 'C05', 'C06', 'C07', 'C12', 'C13', 'C14', 'C15')
    cls_name = 'StorySend'
    base_tag_name = 'roStorySend'
    frame = 'base'

    def shape(self, cx):
        return story_send_shape(cx.W, cx.H, self.mb(cx))

    def ensures(self, cx, ex):
        V0, H0, H1 = self.V0(cx), cx.H, ex.H
        P = V0.base
        mb = self.mb(cx)
        sid = text(H0.find(mb, cx.W.lit('storyID')))
        uniq = unique_story_ids(V0)
        out = self.std_normal(cx, ex)
        warned = ex.st.warns
        r = cp(cx.clock + 2, mb)      # the story accessor converts on every access; the second conversion is inserted
        if warned == []:
            out.append(('C01+C04.resent_story_takes_the_position_of_the_story_it_replaces',
                        forall_nodes(1, lambda t: Imp(A(uniq, resolves(V0, sid, t)),
                                                      A(z3.Not(H1.mem(P, t)), H1.mem(P, r), H1.pos(P, r) == H0.pos(P, t),
                                                        H1.tag(r) == cx.W.lit('story'),
                                                        text(H1.find(r, cx.W.lit('storyID'))) == sid)))))
            out.append(('C01+C03.everything_else_stays_where_it_was',
                        forall_nodes(1, lambda z: A(Imp(A(H0.mem(P, z), z3.Not(A(V0.is_story(z), V0.sid(z) == sid))),
                                                        A(H1.mem(P, z), H1.pos(P, z) == H0.pos(P, z))),
                                                    Imp(H1.mem(P, z), z3.Or(H0.mem(P, z), z == r))))))
            out.append(('C06.no_warning_only_when_the_story_was_found', z3.Not(none_resolves(V0, sid))))
        elif warned == ['StoryNotFoundWarning']:
            out.append(('C06.one_StoryNotFoundWarning_only_when_unresolvable', none_resolves(V0, sid)))
            out.append(('C03.unresolvable_story_is_inert', list_same(H0, H1, P)))
        else:
            out.append(('C06.at_most_one_warning', z3.BoolVal(False)))
        return out


# ------------------------------------------------------------------ roElementAction MOVE (stories)
from .loops import MoveLoops, CollectSources, RemoveAll, InsertBlock
from .roles import found_nodes, enum_start, unique_local


class MoveContract(MoveLoops, MergeContract):
    """shared by EAStoryMove, EAItemMove, ItemMoveMultiple (parent/tag differ)"""

    def loop(self, ordinal):
        if ordinal == 0:
            return CollectSources(self)
        if ordinal == 1:
            return RemoveAll(self)
        if ordinal == 2:
            return InsertBlock(self, self.index_var)

    def move_clauses(self, cx, ex, P, is_elem0, eid0, prop='C01'):
        """view-level postcondition of a block move inside parent P (entry-heap term)"""
        H0, H1 = cx.H, ex.H
        out = []
        la, lc = ex.loop(0), ex.loop(2)
        if la is None or lc is None or getattr(la, 'broke', False) or getattr(lc, 'broke', False):
            return [('C06.every_named_source_is_processed', z3.BoolVal(False))]
        Lst = lc.seq.base
        n = self.move_n(cx)
        el = lambda i: Lst.elem(i).t
        moved = lambda z: self.in_list(lc.st.ghost, Lst, n, z)
        tid = self.move_target_id(cx)
        j, j2 = z3.Ints('j!e j2!e')
        uniq = forall_nodes(2, lambda s, t: Imp(A(is_elem0(s), is_elem0(t), eid0(s) == eid0(t)), s == t),
                            patterns=lambda s, t: [z3.MultiPattern(H0.mem(P, s), H0.mem(P, t))])
        out.append(('%s.move_never_adds_or_loses_an_element' % prop, members_same(H0, H1, P)))
        out.append(('C06+%s.every_named_source_is_moved' % prop,
                    z3.ForAll([j], Imp(A(0 <= j, j < n),
                                       A(is_elem0(el(j)), self.move_ident(cx, j) != none_s, eid0(el(j)) == self.move_ident(cx, j), moved(el(j)))))))
        out.append(('%s+C03.unmoved_children_keep_their_order' % prop,
                    forall_nodes(2, lambda z, w: Imp(A(H0.mem(P, z), H0.mem(P, w), z3.Not(moved(z)), z3.Not(moved(w))),
                                                     (H1.pos(P, z) < H1.pos(P, w)) == (H0.pos(P, z) < H0.pos(P, w))))))
        out.append(('C03.only_named_elements_are_moved',
                    forall_nodes(1, lambda z: Imp(moved(z), A(is_elem0(z), z3.Exists([j], A(0 <= j, j < n, self.move_ident(cx, j) != none_s,
                                                                                            eid0(z) == self.move_ident(cx, j))))))))
        out.append(('%s.block_in_message_order' % prop,
                    z3.ForAll([j, j2], Imp(A(0 <= j, j < j2, j2 < n), H1.pos(P, el(j)) < H1.pos(P, el(j2))))))
        out.append(('%s.block_immediately_before_target' % prop,
                    forall_nodes(1, lambda t: Imp(A(uniq, tid != none_s, is_elem0(t), eid0(t) == tid),
                                                  z3.ForAll([j], Imp(A(0 <= j, j < n),
                                                                     forall_nodes(1, lambda z: Imp(A(H0.mem(P, z), z3.Not(moved(z))),
                                                                                                   (H1.pos(P, z) < H1.pos(P, el(j))) == (H0.pos(P, z) < H0.pos(P, t))))))))))
        out.append(('%s.block_at_end_when_target_blank_or_absent' % prop,
                    Imp(tid == none_s,
                        z3.ForAll([j], Imp(A(0 <= j, j < n),
                                           forall_nodes(1, lambda z: Imp(A(H0.mem(P, z), z3.Not(moved(z))), H1.pos(P, z) < H1.pos(P, el(j)))))))))
        out.append(('C06.no_warning_when_applied', z3.BoolVal([w for w in ex.st.warns if not w.startswith('*')] == [])))
        return out


@contract('mosromgr.mostypes.EAStoryMove.merge')
class EAStoryMoveMerge(MoveContract):
    props = ('C01', 'C03', 'C05', 'C06', 'C07', 'C12', 'C13', 'C14', 'C15')
    cls_name = 'EAStoryMove'
    base_tag_name = 'roElementAction'
    frame = 'base'
    list_var = 'source_stories'
    index_var = 'target_story_index'
    move_tag, move_idtag = 'story', 'storyID'

    def src(self, cx):
        return cx.H.find(self.mb(cx), cx.W.lit('element_source'))

    def tgt(self, cx):
        return cx.H.find(self.mb(cx), cx.W.lit('element_target'))

    def shape(self, cx):
        return [('Shape.element_source_present', self.src(cx) != null)]

    def move_parent(self, cx, lp):
        return self.V0(cx).base

    def move_n(self, cx):
        return cx.H.falen(self.src(cx), cx.W.lit('storyID'))

    def move_ident(self, cx, j):
        return text(cx.H.fanode(self.src(cx), cx.W.lit('storyID'), j))

    def move_target_id(self, cx):
        H, lit = cx.H, cx.W.lit
        return z3.If(z3.Or(self.tgt(cx) == null, H.find(self.tgt(cx), lit('storyID')) == null), none_s,
                     text(H.find(self.tgt(cx), lit('storyID'))))

    def move_target_node(self, cx, lp):
        # the target lookup (if any) is the only find_child call before the sources are resolved
        f = found_nodes(lp.entry)
        return f[0] if len(f) == 1 else null

    def ensures(self, cx, ex):
        V0 = self.V0(cx)
        out = self.std_normal(cx, ex)
        out += self.move_clauses(cx, ex, V0.base, V0.is_story, V0.sid, 'C01')
        return out

    def raises(self, cx, ex):
        V0 = self.V0(cx)
        H0 = cx.H
        out = self.std_raise(cx, ex)
        n = self.move_n(cx)
        j, j2 = z3.Ints('j!r j2!r')
        tid = self.move_target_id(cx)
        allres = z3.ForAll([j], Imp(A(0 <= j, j < n), z3.Not(none_resolves(V0, self.move_ident(cx, j)))))
        distinct = z3.ForAll([j, j2], Imp(A(0 <= j, j < j2, j2 < n), self.move_ident(cx, j) != self.move_ident(cx, j2)))
        notgt = z3.ForAll([j], Imp(A(0 <= j, j < n), self.move_ident(cx, j) != tid))
        out.append(('C01.no_error_when_references_resolve',
                    z3.Not(A(unique_story_ids(V0), allres, distinct, notgt, z3.Or(tid == none_s, z3.Not(none_resolves(V0, tid)))))))
        return out
