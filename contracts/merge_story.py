"""Contracts of the story-level merges (C01, C03, C05, C06, C12, C13)."""
import z3
from pyvc import logic as L
from pyvc.logic import Node, Str, null, none_s, text, is_msg, born, forall_nodes, forall_ints
from pyvc.values import *
from pyvc.contracts import contract, Contract, Case, LoopSpec
from .common import *


def list_same(H0, H1, P):
    return forall_nodes(1, lambda z: A(H1.mem(P, z) == H0.mem(P, z), Imp(H0.mem(P, z), H1.pos(P, z) == H0.pos(P, z))))


def resolves(V, idv, s):
    """story s of the running order is what the reference idv names (a blank reference names nothing)"""
    return A(idv != none_s, V.is_story(s), V.sid(s) == idv)


def none_resolves(V, idv):
    return forall_nodes(1, lambda s: z3.Not(resolves(V, idv, s)), patterns=lambda s: [V.H.mem(V.base, s)])


def placed_before(V0, H1, s, t):
    """every other story is before s afterwards iff it was before t"""
    P = V0.base
    return forall_nodes(1, lambda z: Imp(A(V0.is_story(z), z != s),
                                         (H1.pos(P, z) < H1.pos(P, s)) == (V0.H.pos(P, z) < V0.H.pos(P, t))))


def placed_last(V0, H1, s):
    P = V0.base
    return forall_nodes(1, lambda z: Imp(A(V0.is_story(z), z != s), H1.pos(P, z) < H1.pos(P, s)))


@contract('mosromgr.mostypes.StoryMove.merge')
class StoryMoveMerge(MergeContract):
    props = ('C01', 'C03', 'C05', 'C06', 'C12', 'C13', 'C14')
    cls_name = 'StoryMove'
    base_tag_name = 'roStoryMove'
    frame = 'base'

    def ids(self, cx):
        mb = self.mb(cx)
        lit = cx.W.lit
        H = cx.H
        n = H.falen(mb, lit('storyID'))
        idf = lambda j: text(H.fanode(mb, lit('storyID'), j))
        return n, idf

    def ensures(self, cx, ex):
        V0, H0, H1 = self.V0(cx), cx.H, ex.H
        P = V0.base
        n, idf = self.ids(cx)
        src_id, tgt_id = idf(0), idf(1)
        has_target = A(n >= 2, tgt_id != none_s)
        uniq = unique_story_ids(V0)
        out = self.std_normal(cx, ex)
        out.append(('C01.move_never_adds_or_loses_a_story', members_same(H0, H1, P)))
        out.append(('C01.moved_immediately_before_target',
                    forall_nodes(2, lambda s, t: Imp(A(uniq, n >= 1, has_target, resolves(V0, src_id, s), resolves(V0, tgt_id, t), s != t),
                                                     placed_before(V0, H1, s, t)))))
        out.append(('C01.moved_to_end_when_target_blank_or_absent',
                    forall_nodes(1, lambda s: Imp(A(uniq, n >= 1, z3.Not(has_target), resolves(V0, src_id, s)),
                                                  placed_last(V0, H1, s)))))
        out.append(('C01+C03.everything_else_keeps_its_order',
                    keep_order(H0, H1, P, lambda z: A(V0.is_story(z), V0.sid(z) == src_id))))
        out.append(('C01.source_equals_target_is_noop',
                    forall_nodes(1, lambda s: Imp(A(uniq, n >= 2, resolves(V0, src_id, s), src_id == tgt_id), list_same(H0, H1, P)))))
        out.append(('C03.unresolvable_source_is_inert',
                    Imp(z3.Or(n < 1, none_resolves(V0, src_id)), list_same(H0, H1, P))))
        out.append(('C03.unresolvable_target_is_inert',
                    Imp(A(has_target, none_resolves(V0, tgt_id)), list_same(H0, H1, P))))
        out.append(('C06.no_warning_when_applied', z3.BoolVal(ex.st.warns == [])))
        return out

    def raises(self, cx, ex):
        V0 = self.V0(cx)
        n, idf = self.ids(cx)
        src_id, tgt_id = idf(0), idf(1)
        has_target = A(n >= 2, tgt_id != none_s)
        out = self.std_raise(cx, ex)
        # a message whose references resolve must be applied, not rejected
        out.append(('C01.no_error_when_references_resolve',
                    z3.Not(A(n >= 1, z3.Not(none_resolves(V0, src_id)), z3.Or(z3.Not(has_target), z3.Not(none_resolves(V0, tgt_id)))))))
        return out
