"""Contracts of the story-level merges (C01, C03, C05, C06, C12, C13)."""
import z3
from pyvc import logic as L
from pyvc.logic import Node, Str, null, none_s, text, is_msg, born, orig, cp, forall_nodes, forall_ints
from pyvc.values import *
from pyvc.contracts import contract, Contract, Case, LoopSpec
from .common import *


def list_same(H0, H1, P):
    return forall_nodes(1, lambda z: A(H1.mem(P, z) == H0.mem(P, z), Imp(H0.mem(P, z), H1.pos(P, z) == H0.pos(P, z))))


def resolves(V, idv, s):
    """story s of the running order is what the reference idv names (a blank reference names nothing)"""
    return A(idv != none_s, V.is_story(s), V.sid(s) == idv)


def none_resolves(V, idv):
    return forall_nodes(1, lambda s: z3.Not(resolves(V, idv, s)), patterns=lambda s: [V.H.mem(V.base, s)])


def placed_before(V0, H1, s, t):
    """every other story is before s afterwards iff it was before t"""
    P = V0.base
    return forall_nodes(1, lambda z: Imp(A(V0.is_story(z), z != s),
                                         (H1.pos(P, z) < H1.pos(P, s)) == (V0.H.pos(P, z) < V0.H.pos(P, t))))


def placed_last(V0, H1, s):
    P = V0.base
    return forall_nodes(1, lambda z: Imp(A(V0.is_story(z), z != s), H1.pos(P, z) < H1.pos(P, s)))


@contract('mosromgr.mostypes.StoryMove.merge')
class StoryMoveMerge(MergeContract):
    props = ('C01', 'C03', 'C05', 'C06', 'C12', 'C13', 'C14')
    cls_name = 'StoryMove'
    base_tag_name = 'roStoryMove'
    frame = 'base'

    def ids(self, cx):
        mb = self.mb(cx)
        lit = cx.W.lit
        H = cx.H
        n = H.falen(mb, lit('storyID'))
        idf = lambda j: text(H.fanode(mb, lit('storyID'), j))
        return n, idf

    def ensures(self, cx, ex):
        V0, H0, H1 = self.V0(cx), cx.H, ex.H
        P = V0.base
        n, idf = self.ids(cx)
        src_id, tgt_id = idf(0), idf(1)
        has_target = A(n >= 2, tgt_id != none_s)
        uniq = unique_story_ids(V0)
        out = self.std_normal(cx, ex)
        out.append(('C01.move_never_adds_or_loses_a_story', members_same(H0, H1, P)))
        out.append(('C01.moved_immediately_before_target',
                    forall_nodes(2, lambda s, t: Imp(A(uniq, n >= 1, has_target, resolves(V0, src_id, s), resolves(V0, tgt_id, t), s != t),
                                                     placed_before(V0, H1, s, t)))))
        out.append(('C01.moved_to_end_when_target_blank_or_absent',
                    forall_nodes(1, lambda s: Imp(A(uniq, n >= 1, z3.Not(has_target), resolves(V0, src_id, s)),
                                                  placed_last(V0, H1, s)))))
        out.append(('C01+C03.everything_else_keeps_its_order',
                    keep_order(H0, H1, P, lambda z: A(V0.is_story(z), V0.sid(z) == src_id))))
        out.append(('C01.source_equals_target_is_noop',
                    forall_nodes(1, lambda s: Imp(A(uniq, n >= 2, resolves(V0, src_id, s), src_id == tgt_id), list_same(H0, H1, P)))))
        out.append(('C03.unresolvable_source_is_inert',
                    Imp(z3.Or(n < 1, none_resolves(V0, src_id)), list_same(H0, H1, P))))
        out.append(('C03.unresolvable_target_is_inert',
                    Imp(A(has_target, none_resolves(V0, tgt_id)), list_same(H0, H1, P))))
        out.append(('C06.no_warning_when_applied', z3.BoolVal(ex.st.warns == [])))
        return out

    def raises(self, cx, ex):
        V0 = self.V0(cx)
        n, idf = self.ids(cx)
        src_id, tgt_id = idf(0), idf(1)
        has_target = A(n >= 2, tgt_id != none_s)
        out = self.std_raise(cx, ex)
        # a message whose references resolve must be applied, not rejected
        out.append(('C01.no_error_when_references_resolve',
                    z3.Not(A(n >= 1, z3.Not(none_resolves(V0, src_id)), z3.Or(z3.Not(has_target), z3.Not(none_resolves(V0, tgt_id)))))))
        return out


# ------------------------------------------------------------------ roStoryAppend
from .loops import InsertCopies


class CarriedStories:
    """the <story> children of the message base tag (or of element_source)"""
    source_parent_tag = None     # None: base tag itself; else 'element_source'

    def carried_parent(self, cx):
        mb = self.mb(cx)
        if self.source_parent_tag:
            return cx.H.find(mb, cx.W.lit(self.source_parent_tag))
        return mb

    def carried(self, cx, j):
        return cx.H.fanode(self.carried_parent(cx), cx.W.lit('story'), j)

    def n_carried(self, cx):
        return cx.H.falen(self.carried_parent(cx), cx.W.lit('story'))

    def carried_shape(self, cx):
        H, lit = cx.H, cx.W.lit
        cp_ = self.carried_parent(cx)
        return [('Shape.carried_stories_have_storyID',
                 forall_nodes(1, lambda s: Imp(A(H.mem(cp_, s), H.tag(s) == lit('story')), H.find(s, lit('storyID')) != null),
                              patterns=lambda s: [H.mem(cp_, s)])),
                ('Shape.carried_story_durations_numeric',
                 forall_nodes(1, lambda s: Imp(A(H.mem(cp_, s), H.tag(s) == lit('story')), timing_ok(cx.W, H, s)),
                              patterns=lambda s: [H.mem(cp_, s)])),
                ('Shape.carried_items_have_itemID',
                 forall_nodes(2, lambda s, i: Imp(A(H.mem(cp_, s), H.tag(s) == lit('story'), H.mem(s, i), H.tag(i) == lit('item')),
                                                  H.find(i, lit('itemID')) != null),
                              patterns=lambda s, i: [z3.MultiPattern(H.mem(cp_, s), H.mem(s, i))]))]


class StoryInsertLoop(InsertCopies):
    def parent(self, cx, lp): return self.owner.V0(cx).base
    def carried(self, cx, lp, j): return self.owner.carried(cx, j)
    def ctag(self, cx): return cx.W.lit('story')


@contract('mosromgr.mostypes.StoryAppend.merge')
class StoryAppendMerge(CarriedStories, MergeContract):
    props = ('C01', 'C03', 'C04', 'C05', 'C06', 'C12', 'C13', 'C14')
    cls_name = 'StoryAppend'
    base_tag_name = 'roStoryAppend'
    frame = 'base'

    def shape(self, cx):
        return self.carried_shape(cx)

    def loop(self, ordinal):
        if ordinal == 0:
            lp = StoryInsertLoop(self)
            lp.idx0 = lambda cx, l: cx.H.len(self.V0(cx).base)
            return lp

    def ensures(self, cx, ex):
        V0, H0, H1 = self.V0(cx), cx.H, ex.H
        P = V0.base
        n = self.n_carried(cx)
        c0 = cx.clock
        newn = lambda j: cp(c0 + j + 1, self.carried(cx, j))
        out = self.std_normal(cx, ex)
        out.append(('C01+C03.old_children_keep_order', keep_order(H0, H1, P, lambda z: z3.BoolVal(False))))
        out.append(('C01+C04.appended_in_message_order_after_everything',
                    forall_ints(1, lambda j: Imp(A(0 <= j, j < n),
                                                 A(H1.mem(P, newn(j)), H1.tag(newn(j)) == cx.W.lit('story'),
                                                   forall_nodes(1, lambda z: Imp(H0.mem(P, z), H1.pos(P, z) < H1.pos(P, newn(j)))),
                                                   forall_ints(1, lambda j2: Imp(A(0 <= j2, j2 < j), H1.pos(P, newn(j2)) < H1.pos(P, newn(j)))))))))
        out.append(('C01.no_other_story_added',
                    forall_nodes(1, lambda z: Imp(H1.mem(P, z), z3.Or(H0.mem(P, z),
                                                                      A(c0 < born(z), born(z) <= c0 + n, z == newn(born(z) - c0 - 1)))))))
        out.append(('C06.no_warning_when_applied', z3.BoolVal([w for w in ex.st.warns if not w.startswith('*')] == [])))
        return out


# ------------------------------------------------------------------ roStoryDelete
from .loops import DeleteByIds


class StoryDeleteLoop(DeleteByIds):
    category = 'StoryNotFoundWarning'
    def parent(self, cx, lp): return self.owner.V0(cx).base
    def ctag(self, cx): return cx.W.lit('story')
    def idtag(self, cx): return cx.W.lit('storyID')
    def ident(self, cx, lp, j): return self.owner.ident(cx, j)


class DeleteStoriesContract(MergeContract):
    """shared by roStoryDelete and roElementAction DELETE (stories)"""
    frame = 'base'

    def ensures(self, cx, ex):
        V0, H0, H1 = self.V0(cx), cx.H, ex.H
        P = V0.base
        n = self.n_ids(cx)
        ident = lambda j: self.ident(cx, j)
        uniq = unique_story_ids(V0)
        out = self.std_normal(cx, ex)
        j = z3.Int('j!e')
        out.append(('C01.every_named_story_is_gone',
                    Imp(uniq, z3.ForAll([j], Imp(A(0 <= j, j < n, ident(j) != none_s),
                                                 forall_nodes(1, lambda z: Imp(A(V0.is_story(z), V0.sid(z) == ident(j)), z3.Not(H1.mem(P, z)))))))))
        named = lambda z: A(V0.is_story(z), z3.Exists([j], A(0 <= j, j < n, ident(j) != none_s, V0.sid(z) == ident(j))))
        out.append(('C01+C03.nothing_else_removed_and_order_kept',
                    A(forall_nodes(1, lambda z: A(Imp(H1.mem(P, z), H0.mem(P, z)),
                                                  Imp(A(H0.mem(P, z), z3.Not(named(z))), H1.mem(P, z)))),
                      forall_nodes(2, lambda z, w: Imp(A(H1.mem(P, z), H1.mem(P, w)),
                                                       (H1.pos(P, z) < H1.pos(P, w)) == (H0.pos(P, z) < H0.pos(P, w)))))))
        return out


@contract('mosromgr.mostypes.StoryDelete.merge')
class StoryDeleteMerge(DeleteStoriesContract):
    props = ('C01', 'C03', 'C05', 'C06', 'C12', 'C13', 'C14')
    cls_name = 'StoryDelete'
    base_tag_name = 'roStoryDelete'

    def n_ids(self, cx):
        return cx.H.falen(self.mb(cx), cx.W.lit('storyID'))

    def ident(self, cx, j):
        return text(cx.H.fanode(self.mb(cx), cx.W.lit('storyID'), j))

    def loop(self, ordinal):
        if ordinal == 0:
            return StoryDeleteLoop(self)


# ------------------------------------------------------------------ roStoryInsert / EA INSERT
class SkippingStoryInsertLoop(StoryInsertLoop):
    """insert loop that skips carried stories whose ID is already in the running order"""
    skipping = True
    index_var = 'story_index'

    def idx0(self, cx, lp):
        return lp.entry.locals[self.index_var].t

    def g_dw(self, cx):
        return cx.data.setdefault('g_dw', cx.W.fresh_fun('dupwit', L.I, Node))

    def cid(self, cx, lp, j):
        return text(cx.H.find(self.carried(cx, lp, j), cx.W.lit('storyID')))

    def extra_invariant(self, cx, lp):
        V0 = self.owner.V0(cx)
        k = lp.k
        dw = self.g_dw(cx)
        j = z3.Int('j!dw')
        cur = lp.st.locals[self.index_var]
        out = [('index_var', cur.t == self.idx0(cx, lp) + self.ins(cx, k))]
        out.append(('ghost.skipped_iff_duplicate',
                    z3.ForAll([j], Imp(A(0 <= j, j < k),
                                       A(Imp(self.skipped(cx, j), A(V0.is_story(dw(j)), V0.sid(dw(j)) == self.cid(cx, lp, j))),
                                         Imp(z3.Not(self.skipped(cx, j)),
                                             forall_nodes(1, lambda s: Imp(V0.is_story(s), V0.sid(s) != self.cid(cx, lp, j)))))),
                              patterns=[self.g_skipped(cx)(j)])))
        return out

    def ghost_update(self, cx, lp):
        k = lp.k
        c0 = lp.entry.clock
        inserted = any(w[0] == 'kids' for w in lp.st.writes[len(lp.head.writes):])
        V0 = self.owner.V0(cx)
        ins, sk, jof, dw = self.g_ins(cx), self.g_skipped(cx), self.g_jof(cx), self.g_dw(cx)
        if inserted:
            return [sk(k) == False, ins(k + 1) == ins(k) + 1, jof(c0 + ins(k) + 1) == k]
        s = z3.Const('s!dw', Node)
        body = lambda x: A(V0.is_story(x), V0.sid(x) == self.cid(cx, lp, k))
        return [sk(k) == True, ins(k + 1) == ins(k),
                ('skolem', 'duplicate_exists', z3.Exists([s], body(s)), body(dw(k)))]

    def iteration(self, cx, lp):
        V0 = self.owner.V0(cx)
        w = lp.st.warns
        inserted = any(x[0] == 'kids' for x in lp.st.writes[len(lp.head.writes):])
        s = z3.Const('s!it', Node)
        isdup = z3.Exists([s], A(V0.is_story(s), V0.sid(s) == self.cid(cx, lp, lp.k)))
        if w == [] and inserted:
            return [('C06.no_warning_means_inserted_and_not_duplicate', z3.Not(isdup))]
        if w == ['DuplicateStoryWarning'] and not inserted:
            return [('C06.exactly_one_DuplicateStoryWarning_only_for_a_duplicate', isdup)]
        return [('C06.one_warning_per_skipped_story_none_otherwise', z3.BoolVal(False))]


class InsertStoriesContract(CarriedStories, MergeContract):
    """shared by roStoryInsert and roElementAction INSERT (stories)"""
    frame = 'base'
    blank_target_means_end = False

    def shape(self, cx):
        return self.carried_shape(cx)

    def loop(self, ordinal):
        if ordinal == 0:
            return SkippingStoryInsertLoop(self)

    def target_id(self, cx):
        raise NotImplementedError

    def ensures(self, cx, ex):
        V0, H0, H1 = self.V0(cx), cx.H, ex.H
        P = V0.base
        n = self.n_carried(cx)
        c0 = cx.clock
        lp = ex.loop(0)
        L0 = self.loop(0)
        out = self.std_normal(cx, ex)
        if lp is None or getattr(lp, 'broke', False):
            out.append(('C06.every_carried_story_is_processed', z3.BoolVal(False)))
            return out
        ins, sk = (lambda j: L0.ins(cx, j)), (lambda j: L0.skipped(cx, j))
        newn = lambda j: cp(c0 + ins(j) + 1, self.carried(cx, j))
        cid = lambda j: text(H0.find(self.carried(cx, j), cx.W.lit('storyID')))
        tid = self.target_id(cx)
        uniq = unique_story_ids(V0)
        j, j2 = z3.Ints('j!e j2!e')
        out.append(('C01+C03.old_children_keep_order', keep_order(H0, H1, P, lambda z: z3.BoolVal(False))))
        blk = lambda t_before: z3.ForAll([j], Imp(A(0 <= j, j < n, z3.Not(sk(j))),
                                                  A(H1.mem(P, newn(j)), H1.tag(newn(j)) == cx.W.lit('story'),
                                                    text(H1.find(newn(j), cx.W.lit('storyID'))) == cid(j),
                                                    forall_nodes(1, lambda z: Imp(H0.mem(P, z), (H1.pos(P, z) < H1.pos(P, newn(j))) == t_before(z))),
                                                    z3.ForAll([j2], Imp(A(0 <= j2, j2 < j, z3.Not(sk(j2))), H1.pos(P, newn(j2)) < H1.pos(P, newn(j)))))))
        out.append(('C01+C04.inserted_in_message_order_immediately_before_target',
                    forall_nodes(1, lambda t: Imp(A(uniq, resolves(V0, tid, t)), blk(lambda z: H0.pos(P, z) < H0.pos(P, t))))))
        if self.blank_target_means_end:
            out.append(('C01+C04.inserted_at_end_when_target_blank', Imp(tid == none_s, blk(lambda z: z3.BoolVal(True)))))
        out.append(('C01.skipped_exactly_the_duplicates',
                    z3.ForAll([j], Imp(A(0 <= j, j < n),
                                       sk(j) == z3.Exists([z3.Const('s!sk', Node)],
                                                          A(V0.is_story(z3.Const('s!sk', Node)), V0.sid(z3.Const('s!sk', Node)) == cid(j)))))))
        out.append(('C01.no_other_story_added',
                    forall_nodes(1, lambda z: Imp(H1.mem(P, z),
                                                  z3.Or(H0.mem(P, z),
                                                        z3.Exists([j], A(0 <= j, j < n, z3.Not(sk(j)), z == newn(j))))))))
        out.append(('C03.unresolvable_target_is_inert',
                    Imp(A(none_resolves(V0, tid), z3.BoolVal(not self.blank_target_means_end) if not self.blank_target_means_end else tid != none_s),
                        list_same(H0, H1, P))))
        return out

    def raises(self, cx, ex):
        V0 = self.V0(cx)
        tid = self.target_id(cx)
        out = self.std_raise(cx, ex)
        ok = z3.Not(none_resolves(V0, tid))
        if self.blank_target_means_end:
            ok = z3.Or(ok, tid == none_s)
        out.append(('C01.no_error_when_references_resolve', z3.Not(ok)))
        return out


@contract('mosromgr.mostypes.StoryInsert.merge')
class StoryInsertMerge(InsertStoriesContract):
    props = ('C01', 'C03', 'C04', 'C05', 'C06', 'C12', 'C13', 'C14')
    cls_name = 'StoryInsert'
    base_tag_name = 'roStoryInsert'

    def target_id(self, cx):
        return text(cx.H.find(self.mb(cx), cx.W.lit('storyID')))

    def shape(self, cx):
        return self.carried_shape(cx) + [('Shape.target_storyID_tag_present', cx.H.find(self.mb(cx), cx.W.lit('storyID')) != null)]
