"""Shared definitions: RO_Inv, message shapes, vocabulary (DESIGN.md section 4)."""
import z3
from pyvc import logic as L
from pyvc.logic import Node, Str, null, none_s, text, is_msg, is_int, is_float, is_dt, born, orig, cp, forall_nodes, forall_ints
from pyvc.values import *
from pyvc.state import State
from pyvc.contracts import Contract, Case, LoopSpec, CallCtx


def A(*xs):
    xs = [x for x in xs if x is not True]
    return z3.And(*xs) if xs else z3.BoolVal(True)


def Imp(a, b):
    return z3.Implies(a, b)


class View:
    """names for the parts of (running order, message) at a heap"""

    def __init__(self, W, H, root):
        self.W, self.H, self.root = W, H, root
        self.base = H.find(root, W.lit('roCreate'))

    def is_story(self, s):
        return A(self.H.mem(self.base, s), self.H.tag(s) == self.W.lit('story'))

    def sid(self, s):
        return text(self.H.find(s, self.W.lit('storyID')))

    def is_item(self, story, i):
        return A(self.H.mem(story, i), self.H.tag(i) == self.W.lit('item'))

    def iid(self, i):
        return text(self.H.find(i, self.W.lit('itemID')))


def timing_ok(W, H, s):
    """durations of story element s are numeric where present (precondition of C12/C15: 'numeric durations')"""
    lit = W.lit
    md = H.find(s, lit('mosExternalMetadata'))
    pl = H.find(md, lit('mosPayload'))
    fs = []
    for t in ('StoryDuration', 'TextTime', 'MediaTime'):
        fs.append(Imp(A(md != null, pl != null, H.find(pl, lit(t)) != null), is_float(text(H.find(pl, lit(t))))))
    # ... and explicit start / end times are parseable where present ('parseable times where present')
    for t in ('StoryStarted', 'StoryEnded'):
        fs.append(Imp(A(md != null, pl != null, H.find(pl, lit(t)) != null), is_dt(text(H.find(pl, lit(t))))))
    return A(*fs)


def ro_inv(W, H, root, name='RO_Inv'):
    """representation invariant of a running order (list of named formulas)"""
    lit = W.lit
    base = H.find(root, lit('roCreate'))
    mid = H.find(root, lit('messageID'))
    out = [
        ('%s.root' % name, A(root != null, z3.Not(is_msg(root)))),
        ('%s.one_roCreate' % name, A(base != null,
                                     forall_nodes(1, lambda x: Imp(A(H.mem(root, x), H.tag(x) == lit('roCreate')), x == base),
                                                  patterns=lambda x: [H.mem(root, x)]))),
        ('%s.messageID' % name, A(mid != null, is_int(text(mid)))),
        ('%s.roID' % name, H.find(base, lit('roID')) != null),
        ('%s.base_tag' % name, H.tag(base) == lit('roCreate')),
        ('%s.stories_have_storyID' % name,
         forall_nodes(1, lambda s: Imp(A(H.mem(base, s), H.tag(s) == lit('story')), H.find(s, lit('storyID')) != null),
                      patterns=lambda s: [H.mem(base, s)])),
        ('%s.items_have_itemID' % name,
         forall_nodes(2, lambda s, i: Imp(A(H.mem(base, s), H.tag(s) == lit('story'), H.mem(s, i), H.tag(i) == lit('item')),
                                          H.find(i, lit('itemID')) != null),
                      patterns=lambda s, i: [z3.MultiPattern(H.mem(base, s), H.mem(s, i))])),
        ('%s.story_durations_numeric' % name,
         forall_nodes(1, lambda s: Imp(A(H.mem(base, s), H.tag(s) == lit('story')), timing_ok(W, H, s)),
                      patterns=lambda s: [H.mem(base, s)])),
        ('%s.roEdStart_parseable' % name,
         forall_nodes(1, lambda x: Imp(A(H.mem(base, x), H.tag(x) == lit('roEdStart'), text(x) != none_s), is_dt(text(x))),
                      patterns=lambda x: [H.mem(base, x)])),
    ]
    return out


def ownership(H, name='Own'):
    """membership never crosses the message / non-message boundary"""
    return [('%s.no_sharing' % name,
             forall_nodes(2, lambda p, x: Imp(H.mem(p, x), is_msg(p) == is_msg(x)),
                          patterns=lambda p, x: [H.mem(p, x)]))]


def msg_shape(W, H, mroot, base_tag_name):
    lit = W.lit
    mb = H.find(mroot, lit(base_tag_name))
    mid = H.find(mroot, lit('messageID'))
    return [
        ('Shape.root', A(mroot != null, is_msg(mroot), born(mroot) == 0)),
        ('Shape.base_tag', A(mb != null)),
        ('Shape.messageID', A(mid != null, is_int(text(mid)))),
        ('Shape.roID', H.find(mb, lit('roID')) != null),
    ]


def unique_story_ids(V):
    H = V.H
    return forall_nodes(2, lambda s, t: Imp(A(V.is_story(s), V.is_story(t), V.sid(s) == V.sid(t)), s == t),
                        patterns=lambda s, t: [z3.MultiPattern(H.mem(V.base, s), H.mem(V.base, t))])


def unique_item_ids(V, story):
    H = V.H
    return forall_nodes(2, lambda s, t: Imp(A(V.is_item(story, s), V.is_item(story, t), V.iid(s) == V.iid(t)), s == t),
                        patterns=lambda s, t: [z3.MultiPattern(H.mem(story, s), H.mem(story, t))])


class MergeContract(Contract):
    """base for every <Msg>.merge contract"""
    opaque = True
    base_tag_name = None
    cls_name = None
    frame = 'base'          # which child list may be written: 'base' | 'story' | 'root' | 'none'

    def entry(self, E):
        W = E.W
        st = State(L.Heap(0, 0), z3.IntVal(0))
        root = W.fresh('root', Node)
        mroot = W.fresh('mroot', Node)
        ro_cls = E.repo.cls('RunningOrder')
        m_cls = E.repo.cls(self.cls_name)
        # both objects are built by the real constructors (MosFile.__init__), so fields added there are present
        st.locals = {}
        (st, ro), = [r for r in E.instantiate(ro_cls, [SNode(root)], {}, st) if not isinstance(r[1], Raised)][:1]
        (st, me), = [r for r in E.instantiate(m_cls, [SNode(mroot)], {}, st) if not isinstance(r[1], Raised)][:1]
        return st, {'self': me, 'ro': ro}

    # roots
    def roots(self, cx):
        ro, me = cx.a['ro'], cx.a['self']
        return cx.objs[ro.oid]['_xml'].t, cx.objs[me.oid]['_xml'].t

    def requires(self, cx):
        root, mroot = self.roots(cx)
        H, W = cx.H, cx.W
        out = ro_inv(W, H, root) + ownership(H) + msg_shape(W, H, mroot, self.base_tag_name)
        out.append(('RO_Inv.born', born(root) == 0))
        out += self.shape(cx)
        return out

    def shape(self, cx):
        return []

    # views
    def V0(self, cx):
        root, mroot = self.roots(cx)
        return View(cx.W, cx.H, root)

    def V1(self, cx, ex):
        root, mroot = self.roots(cx)
        return View(cx.W, ex.H, root)

    def mb(self, cx):
        root, mroot = self.roots(cx)
        return cx.H.find(mroot, cx.W.lit(self.base_tag_name))

    # ---- clauses common to all merges
    def frame_parent_ok(self, cx, P):
        """formula: P (entry-heap term) is a parent this merge may write"""
        V = self.V0(cx)
        if self.frame == 'base':
            return P == V.base
        if self.frame == 'root':
            return P == V.root
        if self.frame == 'story':
            return V.is_story(P)
        return z3.BoolVal(False)

    def std_normal(self, cx, ex):
        root, mroot = self.roots(cx)
        W = cx.W
        out = []
        # returns the running order object it was given
        ret_ok = isinstance(ex.value, SObj) and ex.value.oid == cx.a['ro'].oid
        out.append(('returns_ro', z3.BoolVal(ret_ok)))
        out += [(n, f) for n, f in ro_inv(W, ex.H, root, 'C14+C15+RO_Inv.preserved')]
        out += [(n, f) for n, f in ownership(ex.H, 'C13.ownership_preserved')]
        out += self.frame_clauses(cx, ex)
        # the message object must not keep a reference to anything now linked into the running order
        # (e.g. a converted story cached on the object and inserted by reference)
        held = []

        def collect(v, depth=0):
            if isinstance(v, SNode):
                held.append(v.t)
            elif isinstance(v, SObj) and depth < 3 and (v.oid in ex.st.objs or v.init_fields):
                for fv in ex.st.fields(v).values():
                    collect(fv, depth + 1)
        me = cx.a['self']
        for fname, fv in ex.st.fields(me).items():
            collect(fv)
        for i, x in enumerate(held):
            out.append(('C13.message_object_holds_no_reference_into_the_running_order#%d' % i,
                        forall_nodes(1, lambda p: Imp(ex.H.mem(p, x), is_msg(p)))))
        # object state of the running order: it must not hold on to an element that is no longer linked
        # (e.g. a cached base tag after roReplace swapped the running-order element): later merges would edit a detached tree
        ro_obj = cx.a['ro']
        for fname, fv in ex.st.fields(ro_obj).items():
            if isinstance(fv, SNode) and fname != '_xml':
                x = fv.t
                pq = z3.Const('p!st', Node)
                out.append(('C01+C02+C03+C15.running_order_object_holds_no_detached_element[%s]' % fname,
                            z3.Or(x == null, x == root, z3.Exists([pq], A(ex.H.mem(pq, x), z3.Not(is_msg(pq)))))))
        out.append(('C14.messageID_unchanged', A(ex.H.find(root, W.lit('messageID')) == cx.H.find(root, W.lit('messageID')))))
        if self.cls_name not in ('RunningOrderReplace', 'MetaDataReplace'):
            b0, b1 = cx.H.find(root, W.lit('roCreate')), ex.H.find(root, W.lit('roCreate'))
            out.append(('C14.running_order_element_and_its_roID_unchanged',
                        A(b1 == b0, ex.H.find(b1, W.lit('roID')) == cx.H.find(b0, W.lit('roID')))))
        if self.cls_name != 'RunningOrderEnd':
            # refinement of the abstract merge contract: only a roDelete completes a running order
            out.append(('C07.no_spurious_completion',
                        ex.H.find(root, W.lit('mosromgrmeta')) == cx.H.find(root, W.lit('mosromgrmeta'))))
        return out

    def frame_clauses(self, cx, ex):
        out = []
        for i, w in enumerate(ex.st.writes):
            kind, P, Hb, info = w
            if kind == 'kids':
                # child lists of nodes created by this merge (fresh copies) may be written freely
                out.append(('C03.frame_only_addressed_parent#%d' % i, z3.Or(born(P) > 0, self.frame_parent_ok(cx, P))))
                out.append(('C13.message_not_modified#%d' % i, z3.Not(is_msg(P))))
            elif kind == 'tag':
                out.append(('C03+C13.tag_written_only_on_fresh_nodes#%d' % i, born(P) > 0))
            elif kind == 'loop':
                pass    # covered by the loop invariant's own frame clause
        return out

    def std_raise(self, cx, ex):
        from pyvc.values import exc_isinstance
        out = []
        out.append(('C12.only_MosMergeError[%s]' % ex.value.name(),
                    z3.BoolVal(exc_isinstance(ex.value.cls, 'MosMergeError'))))
        writes = [w for w in ex.st.writes if w[0] in ('kids', 'tag', 'loop')]
        if not writes:
            out.append(('C05.unchanged_on_raise', z3.BoolVal(True)))
        else:
            out.append(('C05.unchanged_on_raise', self.heap_equal(cx, ex)))
        return out

    def heap_equal(self, cx, ex):
        H0, H1 = cx.H, ex.H
        return A(forall_nodes(2, lambda p, x: Imp(z3.Not(born(p) > 0), A(H1.mem(p, x) == H0.mem(p, x), H1.pos(p, x) == H0.pos(p, x)))),
                 forall_nodes(1, lambda x: Imp(z3.Not(born(x) > 0), H1.tag(x) == H0.tag(x))))

    def raises(self, cx, ex):
        return self.std_raise(cx, ex)

    def cases(self, cx):
        # abstract view for callers (RunningOrder.__add__, MosCollection.merge): see mostypes_ro.py
        raise NotImplementedError


# ---------------------------------------------------------------- vocabulary over one parent
def keep_order(H0, H1, P, excl):
    """all children of P (entry heap) other than the excluded ones keep membership and relative order"""
    return forall_nodes(2, lambda z, w: Imp(A(H0.mem(P, z), H0.mem(P, w), z3.Not(excl(z)), z3.Not(excl(w))),
                                            A(H1.mem(P, z), H1.mem(P, w), (H1.pos(P, z) < H1.pos(P, w)) == (H0.pos(P, z) < H0.pos(P, w)))))


def members_same(H0, H1, P):
    return forall_nodes(1, lambda z: H1.mem(P, z) == H0.mem(P, z))
