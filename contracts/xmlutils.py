"""Contracts for mosromgr/utils/xml.py.

remove_node / insert_node / append_node / replace_node are *transparent*: their
real one-line bodies are executed at every call site on top of the assumed
ElementTree list semantics (A-ET-LIST), so a change inside them is felt by every
merge proof.  find_child has a loop and is opaque.
"""
import z3
from pyvc.contracts import contract, Contract, Case, LoopSpec, fresh_node
from pyvc.logic import Node, Str, null, none_s, text, idtag, forall_nodes
from pyvc import logic as L
from pyvc.values import *
from pyvc.state import State


ANY = 'mosromgr.utils.xml._ANY'


def fc_match(W, H, ct, idv, y):
    """child y matches (tag, id): id omitted (sentinel) = any child with the tag;
    id None (blank reference) = nothing; else the child's <tag>ID text equals id"""
    return z3.And(H.tag(y) == ct, idv != none_s,
                  z3.Or(idv == W.sentinel(ANY), text(H.find(y, idtag(ct))) == idv))


@contract('mosromgr.utils.xml.find_child')
class FindChild(Contract):
    props = ('C01', 'C02', 'C03', 'C05', 'C06', 'C12')

    def entry(self, E):
        st = State(L.Heap(0, 0), z3.IntVal(0))
        W = E.W
        bound = {'parent': SNode(W.fresh('parent', Node)), 'child_tag': SStr(W.fresh('child_tag', Str)),
                 'id': SStr(W.fresh('id', Str))}
        return st, bound

    def requires(self, cx):
        P, ct, idv = cx.node('parent'), cx.str('child_tag'), cx.str('id')
        H = cx.H
        return [
            ('parent_not_none', P != null),
            ('child_tag_is_str', ct != none_s),
            # safety of `child.find(f'{child_tag}ID').text` : only needed when an id is searched for
            ('tagged_children_have_id_tag',
             z3.Or(idv == none_s, idv == cx.W.sentinel(ANY),
                   forall_nodes(1, lambda y: z3.Implies(z3.And(H.mem(P, y), H.tag(y) == ct),
                                                        H.find(y, idtag(ct)) != null),
                                patterns=lambda y: [H.mem(P, y)]))),
        ]

    def cases(self, cx):
        P, ct, idv = cx.node('parent'), cx.str('child_tag'), cx.str('id')
        H = cx.H
        rv = fresh_node(cx.W, 'found')
        r = rv.t
        found = z3.And(H.mem(P, r), fc_match(cx.W, H, ct, idv, r),
                       forall_nodes(1, lambda y: z3.Implies(z3.And(H.mem(P, y), H.pos(P, y) < H.pos(P, r)),
                                                            z3.Not(fc_match(cx.W, H, ct, idv, y))),
                                    patterns=lambda y: [H.mem(P, y)]))
        notfound = forall_nodes(1, lambda y: z3.Implies(H.mem(P, y), z3.Not(fc_match(cx.W, H, ct, idv, y))),
                                patterns=lambda y: [H.mem(P, y)])
        def eff_found(st):
            st.addlog.append(('found', r, P))

        def eff_none(st):
            st.addlog.append(('found', null, P))
        return [Case('found', ret=STuple([rv, SInt(H.pos(P, r))]), assume=[found], effect=eff_found),
                Case('notfound', ret=STuple([NONE, NONE]), assume=[notfound], effect=eff_none)]

    def loop(self, ordinal):
        if ordinal == 0:
            return FindChildLoop()


class FindChildLoop(LoopSpec):
    def invariant(self, cx, lp):
        P, ct, idv = cx.node('parent'), cx.str('child_tag'), cx.str('id')
        H = cx.H
        return [('no_match_before_k',
                 forall_nodes(1, lambda y: z3.Implies(z3.And(H.mem(P, y), H.pos(P, y) < lp.k),
                                                      z3.Not(fc_match(cx.W, H, ct, idv, y))),
                              patterns=lambda y: [H.mem(P, y)]))]
