"""C20: the accessors of every message class expose exactly the IDs / elements the message names.

The accessors are *transparent* (merge proofs execute their real bodies); here each is additionally
proved against its own postcondition.  `obj_id` is the specification of MosElement.id (proved below):
an explicit id if one was given, else the text of the first <...ID> child, else None."""
import z3
from pyvc import logic as L
from pyvc.logic import Node, Str, null, none_s, text, is_msg, born, cp, forall_nodes
from pyvc.values import *
from pyvc.state import State
from pyvc.contracts import contract, Contract, Case, LoopSpec, REGISTRY
from .common import A, Imp, timing_ok
from .merge_story import story_send_shape

UNSET = 'mosromgr.moselements._UNSET'


def fields_of(st, o):
    if o.oid in st.objs:
        return st.objs[o.oid]
    return o.init_fields


def obj_id(W, st, o, H=None):
    """specification of Story.id / Item.id for object o"""
    H = H or st.heap
    f = fields_of(st, o)
    idtag = 'storyID' if o.cls.name == 'Story' else 'itemID'
    _id = f['_id']
    idt = none_s if isinstance(_id, SNone) else _id.t
    xml = f['_xml'].t
    found = H.find(xml, W.lit(idtag))
    return z3.If(idt != W.sentinel(UNSET), idt, z3.If(z3.Or(xml == null, found == null), none_s, text(found)))


def opt_text(H, W, P, idtag):
    f = H.find(P, W.lit(idtag))
    return z3.If(f == null, none_s, text(f))


@contract('mosromgr.moselements.MosElement.id')
class MosElementId(Contract):
    props = ('C20', 'C15', 'C12')
    opaque = False

    def entry(self, E):
        W = E.W
        st = State(L.Heap(0, 0), z3.IntVal(0))
        cls = E.repo.cls('Story')
        o = SObj(cls, st.new_obj(None))
        st.objs[o.oid] = {'_xml': SNode(W.fresh('xml', Node)), '_id': SStr(W.fresh('explicit_id', Str)), '_slug': NONE,
                          '_id_tag': SStr(W.lit('storyID'), py='storyID'), '_slug_tag': SStr(W.lit('storySlug'), py='storySlug')}
        return st, {'self': o}

    def ensures(self, cx, ex):
        o = cx.a['self']
        W = cx.W
        spec = obj_id(W, cx.st, o, cx.H)
        v = ex.value
        vt = none_s if isinstance(v, SNone) else v.t
        return [('C20+C15.id_is_the_explicit_id_else_the_first_ID_tag_else_None', vt == spec),
                ('C20.id_is_stable', obj_id(W, ex.st, o, ex.H) == spec)]

    def raises(self, cx, ex):
        return [('C15+C12.id_never_raises[%s]' % ex.value.name(), z3.BoolVal(False))]


class Acc(Contract):
    """generic accessor contract"""
    opaque = False
    props = ('C20',)

    def __init__(self, cls_name, attr, base, kind, where=None, idtag=None, tag=None):
        self.cls_name, self.attr, self.base, self.kind, self.where, self.idtag, self.tag = cls_name, attr, base, kind, where, idtag, tag

    def entry(self, E):
        W = E.W
        st = State(L.Heap(0, 0), z3.IntVal(0))
        cls = E.repo.cls(self.cls_name)
        me = SObj(cls, st.new_obj(None))
        st.objs[me.oid] = {'_xml': SNode(W.fresh('mroot', Node)), '_base_tag': NONE}
        return st, {'self': me}

    def mb(self, cx):
        return cx.H.find(cx.objs[cx.a['self'].oid]['_xml'].t, cx.W.lit(self.base))

    def parent(self, cx):
        mb = self.mb(cx)
        if self.where is None:
            return mb
        return cx.H.find(mb, cx.W.lit(self.where))

    def requires(self, cx):
        mroot = cx.objs[cx.a['self'].oid]['_xml'].t
        out = [('Shape.root', A(mroot != null, is_msg(mroot), born(mroot) == 0)), ('Shape.base_tag', self.mb(cx) != null),
               ('Own', forall_nodes(2, lambda p, x: Imp(cx.H.mem(p, x), is_msg(p) == is_msg(x)), patterns=lambda p, x: [cx.H.mem(p, x)]))]
        if self.where is not None and self.kind != 'first_or_none_if_no_target':
            out.append(('Shape.%s_present' % self.where, self.parent(cx) != null))
        if self.kind == 'last_id':
            out.append(('Shape.at_least_one_id', cx.H.falen(self.parent(cx), cx.W.lit(self.idtag)) >= 1))
        if self.kind == 'converted':
            out += story_send_shape(cx.W, cx.H, self.mb(cx))
        return out

    def ensures(self, cx, ex):
        W, H0, v = cx.W, cx.H, ex.value
        st = ex.st
        P = self.parent(cx)
        k = self.kind
        name = 'C20.%s.%s_' % (self.cls_name, self.attr)
        isobj = isinstance(v, SObj)
        islist = isinstance(v, SList)
        j = z3.Int('j!acc')
        if k == 'first':
            return [(name + 'carries_exactly_the_named_id_or_None', A(z3.BoolVal(isobj), obj_id(W, st, v) == opt_text(H0, W, P, self.idtag)) if isobj else z3.BoolVal(False))]
        if k == 'first_or_none_if_no_target':
            if isinstance(v, SNone):
                return [(name + 'None_only_without_element_target', P == null)]
            return [(name + 'carries_exactly_the_named_id_or_None', A(P != null, obj_id(W, st, v) == opt_text(H0, W, P, self.idtag)))]
        if k == 'converted':
            return [(name + 'carries_the_sent_story_id', A(z3.BoolVal(isobj), obj_id(W, st, v) == opt_text(H0, W, P, 'storyID')) if isobj else z3.BoolVal(False))]
        n = H0.falen(P, W.lit(self.idtag if k in ('ids', 'all_but_last', 'nth', 'last_id') else self.tag))
        ident = lambda jj: text(H0.fanode(P, W.lit(self.idtag), jj))
        if k == 'ids':
            if not islist:
                return [(name + 'is_a_list', z3.BoolVal(False))]
            return [(name + 'one_element_per_named_id_in_message_order',
                     A(v.length == n, z3.ForAll([j], Imp(A(0 <= j, j < n), obj_id(W, st, v.elem(j)) == ident(j)))))]
        if k == 'all_but_last':
            if not islist:
                return [(name + 'is_a_list', z3.BoolVal(False))]
            return [(name + 'one_element_per_source_id_in_message_order',
                     A(v.length == z3.If(n >= 1, n - 1, 0), z3.ForAll([j], Imp(A(0 <= j, j < n - 1), obj_id(W, st, v.elem(j)) == ident(j)))))]
        if k == 'last_id':
            if isinstance(v, SNone):
                return [(name + 'None_only_for_a_blank_reference', ident(n - 1) == none_s)]
            return [(name + 'carries_exactly_the_reference_id', A(ident(n - 1) != none_s, obj_id(W, st, v) == ident(n - 1)))]
        if k == 'nth':
            idx = self.where_index
            if isinstance(v, SNone):
                return [(name + 'None_only_when_absent_or_blank', z3.Or(n <= idx, ident(idx) == none_s) if idx == 1 else n <= idx)]
            return [(name + 'carries_exactly_the_named_id', A(n > idx, obj_id(W, st, v) == ident(idx)))]
        if k == 'carried':
            if not islist:
                return [(name + 'is_a_list', z3.BoolVal(False))]
            el = lambda jj: H0.fanode(P, W.lit(self.tag), jj)
            return [(name + 'exposes_every_carried_element_with_its_content_in_message_order',
                     A(v.length == n, z3.ForAll([j], Imp(A(0 <= j, j < n),
                                                         A(fields_of(st, v.elem(j))['_xml'].t == el(j),
                                                           obj_id(W, st, v.elem(j)) == opt_text(H0, W, el(j), self.idtag))))))]
        raise Exception('unknown accessor kind %s' % k)

    def raises(self, cx, ex):
        return [('C20+C12.%s.%s_never_raises[%s]' % (self.cls_name, self.attr, ex.value.name()), z3.BoolVal(False))]


def reg(cls_name, attr, base, kind, **kw):
    c = Acc(cls_name, attr, base, kind, **{k: v for k, v in kw.items() if k != 'index'})
    if 'index' in kw:
        c.where_index = kw['index']
    c.qualname = 'mosromgr.mostypes.%s.%s' % (cls_name, attr)
    REGISTRY[c.qualname] = c


S, I = dict(idtag='storyID'), dict(idtag='itemID')
reg('StorySend', 'story', 'roStorySend', 'converted')
reg('StoryAppend', 'stories', 'roStoryAppend', 'carried', tag='story', **S)
reg('StoryDelete', 'stories', 'roStoryDelete', 'ids', **S)
reg('ItemDelete', 'story', 'roItemDelete', 'first', **S)
reg('ItemDelete', 'items', 'roItemDelete', 'ids', **I)
reg('StoryInsert', 'target_story', 'roStoryInsert', 'first', **S)
reg('StoryInsert', 'source_stories', 'roStoryInsert', 'carried', tag='story', **S)
reg('ItemInsert', 'story', 'roItemInsert', 'first', **S)
reg('ItemInsert', 'item', 'roItemInsert', 'first', **I)
reg('ItemInsert', 'items', 'roItemInsert', 'carried', tag='item', **I)
reg('StoryMove', 'source_story', 'roStoryMove', 'nth', index=0, **S)
reg('StoryMove', 'target_story', 'roStoryMove', 'nth', index=1, **S)
reg('ItemMoveMultiple', 'story', 'roItemMoveMultiple', 'first', **S)
reg('ItemMoveMultiple', 'item', 'roItemMoveMultiple', 'last_id', **I)
reg('ItemMoveMultiple', 'items', 'roItemMoveMultiple', 'all_but_last', **I)
reg('StoryReplace', 'story', 'roStoryReplace', 'first', **S)
reg('StoryReplace', 'stories', 'roStoryReplace', 'carried', tag='story', **S)
reg('ItemReplace', 'story', 'roItemReplace', 'first', **S)
reg('ItemReplace', 'item', 'roItemReplace', 'first', **I)
reg('ItemReplace', 'items', 'roItemReplace', 'carried', tag='item', **I)
EA = 'roElementAction'
reg('EAStoryReplace', 'story', EA, 'first', where='element_target', **S)
reg('EAStoryReplace', 'stories', EA, 'carried', where='element_source', tag='story', **S)
reg('EAItemReplace', 'story', EA, 'first', where='element_target', **S)
reg('EAItemReplace', 'item', EA, 'first', where='element_target', **I)
reg('EAItemReplace', 'items', EA, 'carried', where='element_source', tag='item', **I)
reg('EAStoryDelete', 'stories', EA, 'ids', where='element_source', **S)
reg('EAItemDelete', 'story', EA, 'first', where='element_target', **S)
reg('EAItemDelete', 'items', EA, 'ids', where='element_source', **I)
reg('EAStoryInsert', 'story', EA, 'first', where='element_target', **S)
reg('EAStoryInsert', 'stories', EA, 'carried', where='element_source', tag='story', **S)
reg('EAItemInsert', 'story', EA, 'first', where='element_target', **S)
reg('EAItemInsert', 'item', EA, 'first', where='element_target', **I)
reg('EAItemInsert', 'items', EA, 'carried', where='element_source', tag='item', **I)
reg('EAStorySwap', 'stories', EA, 'ids', where='element_source', **S)
reg('EAItemSwap', 'story', EA, 'first', where='element_target', **S)
reg('EAItemSwap', 'items', EA, 'ids', where='element_source', **I)
reg('EAStoryMove', 'story', EA, 'first_or_none_if_no_target', where='element_target', **S)
reg('EAStoryMove', 'stories', EA, 'ids', where='element_source', **S)
reg('EAItemMove', 'story', EA, 'first', where='element_target', **S)
reg('EAItemMove', 'item', EA, 'first', where='element_target', **I)
reg('EAItemMove', 'items', EA, 'ids', where='element_source', **I)


# ------------------------------------------------------------------ inspect()
class InspectLoop(LoopSpec):
    """per-iteration output delta: exactly the lines of element k, mentioning its id"""

    def __init__(self, owner, spec):
        self.o, self.spec = owner, spec

    def iteration(self, cx, lp):
        kind, where, idtag, tag = self.spec
        W, H0 = cx.W, cx.H
        mb = self.o.mb(cx)
        P = mb if where is None else H0.find(mb, W.lit(where))
        k = lp.k
        if kind == 'ids' or kind == 'all_but_last':
            expected = text(H0.fanode(P, W.lit(idtag), k))
        elif kind == 'carried':
            expected = opt_text(H0, W, H0.fanode(P, W.lit(tag), k), idtag)
        else:
            return []
        printed = []
        for entry in lp.st.out:
            if entry[0] == 'print':
                for a in entry[1]:
                    if isinstance(a, SStr):
                        printed.append(a.t == expected)
                    elif isinstance(a, SNone):
                        printed.append(expected == none_s)
        return [('C20.%s.inspect_mentions_every_element_it_names' % self.o.cls_name, z3.Or(*printed) if printed else z3.BoolVal(False))]


class Inspect(Acc):
    # C19: 'mosromgr inspect' never aborts on a classifiable message - the CLI proof uses the caller-facing view
    # ("prints, does not raise"), so the never-raises obligations of the bodies carry C19 as well
    props = ('C20', 'C19')

    def __init__(self, cls_name, base, loops=None, extra_shape=None, mentions=None):
        Acc.__init__(self, cls_name, 'inspect', base, 'inspect')
        self.loops = loops or {}
        self.extra_shape = extra_shape
        self.mentions = mentions

    def requires(self, cx):
        out = Acc.requires(self, cx)
        H, W = cx.H, cx.W
        mb = self.mb(cx)
        wheres = {sp[1] for sp in self.loops.values() if sp[1]} | set(self.extra_shape or ())
        for w in sorted(wheres):
            if w in ('element_target', 'element_source'):
                out.append(('Shape.%s_present' % w, H.find(mb, W.lit(w)) != null))
        if self.extra_shape and 'two_ids' in self.extra_shape:
            src = H.find(mb, W.lit('element_source'))
            out.append(('Shape.exactly_two_ids', H.falen(src, W.lit(self.extra_shape['two_ids'])) == 2))
        if self.extra_shape and 'min_ids' in self.extra_shape:
            t, n = self.extra_shape['min_ids']
            out.append(('Shape.at_least_%d_%s' % (n, t), H.falen(mb, W.lit(t)) >= n))
        if self.extra_shape and 'roID' in self.extra_shape:
            out.append(('Shape.roID', H.find(mb, W.lit('roID')) != null))
        if self.extra_shape and 'converted' in self.extra_shape:
            out += story_send_shape(W, H, mb)
        return out

    def loop(self, ordinal):
        if ordinal in self.loops:
            return InspectLoop(self, self.loops[ordinal])
        return InspectLoop(self, ('none', None, None, None))

    def ensures(self, cx, ex):
        return [('C20.%s.inspect_prints_without_raising' % self.cls_name, z3.BoolVal(len(ex.st.out) > 0))]

    def raises(self, cx, ex):
        return [('C20+C12+C19.%s.inspect_never_raises[%s]' % (self.cls_name, ex.value.name()), z3.BoolVal(False))]


def regi(cls_name, base, **kw):
    c = Inspect(cls_name, base, **kw)
    c.qualname = 'mosromgr.mostypes.%s.inspect' % cls_name
    REGISTRY[c.qualname] = c


T, SRC = 'element_target', 'element_source'
regi('StorySend', 'roStorySend', extra_shape={'converted': 1})
regi('MetaDataReplace', 'roMetadataReplace')
regi('StoryAppend', 'roStoryAppend', loops={0: ('carried', None, 'storyID', 'story')})
regi('StoryDelete', 'roStoryDelete', loops={0: ('ids', None, 'storyID', None)})
regi('ItemDelete', 'roItemDelete', loops={0: ('ids', None, 'itemID', None)})
regi('StoryInsert', 'roStoryInsert', loops={0: ('carried', None, 'storyID', 'story')})
regi('ItemInsert', 'roItemInsert', loops={0: ('carried', None, 'itemID', 'item')})
regi('StoryMove', 'roStoryMove', extra_shape={'min_ids': ('storyID', 1)})
regi('ItemMoveMultiple', 'roItemMoveMultiple', loops={0: ('all_but_last', None, 'itemID', None)}, extra_shape={'min_ids': ('itemID', 1)})
regi('StoryReplace', 'roStoryReplace', loops={0: ('carried', None, 'storyID', 'story')})
regi('ItemReplace', 'roItemReplace', loops={0: ('carried', None, 'itemID', 'item')})
regi('ReadyToAir', 'roReadyToAir')
regi('RunningOrderReplace', 'roReplace')
regi('RunningOrderEnd', 'roDelete', extra_shape={'roID': 1})
regi('EAStoryReplace', EA, loops={0: ('carried', SRC, 'storyID', 'story')}, extra_shape={T: 1})
regi('EAItemReplace', EA, loops={0: ('carried', SRC, 'itemID', 'item')}, extra_shape={T: 1})
regi('EAStoryDelete', EA, loops={0: ('ids', SRC, 'storyID', None)})
regi('EAItemDelete', EA, loops={0: ('ids', SRC, 'itemID', None)}, extra_shape={T: 1})
regi('EAStoryInsert', EA, loops={0: ('carried', SRC, 'storyID', 'story')}, extra_shape={T: 1})
regi('EAItemInsert', EA, loops={0: ('carried', SRC, 'itemID', 'item')}, extra_shape={T: 1})
regi('EAStorySwap', EA, extra_shape={SRC: 1, 'two_ids': 'storyID'})
regi('EAItemSwap', EA, extra_shape={SRC: 1, T: 1, 'two_ids': 'itemID'})
regi('EAStoryMove', EA, loops={0: ('ids', SRC, 'storyID', None)})
regi('EAItemMove', EA, loops={0: ('ids', SRC, 'itemID', None)}, extra_shape={T: 1})
