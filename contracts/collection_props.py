"""Read accessors of MosCollection and the completion flag of message objects (C07, C09, C19):
the collection reports its running order, never a summary computed from the readers."""
import z3
from pyvc import logic as L
from pyvc.logic import Node, Str, null, none_s, text
from pyvc.values import *
from pyvc.state import State
from pyvc.contracts import contract, Contract, REGISTRY
from .common import A, Imp
from .collection import completed, reader_obj


class CollProp(Contract):
    opaque = False
    props = ('C07', 'C09')

    def entry(self, E):
        W = E.W
        st = State(L.Heap(0, 0), z3.IntVal(0))
        root = W.fresh('root', Node)
        (st, ro), = [r for r in E.instantiate(E.repo.cls('RunningOrder'), [SNode(root)], {}, st) if not isinstance(r[1], Raised)][:1]
        n = W.fresh('n_readers', L.I)
        st.assume(n >= 0)
        readers = SList(n, lambda k: reader_obj(E, k), desc='mos_readers')
        me = SObj(E.repo.cls('MosCollection'), st.new_obj(None))
        st.objs[me.oid] = {'_mos_readers': readers, '_ro': ro}
        return st, {'self': me}

    def ro(self, cx):
        return cx.objs[cx.a['self'].oid]['_ro']

    def root(self, cx):
        return cx.objs[self.ro(cx).oid]['_xml'].t

    def requires(self, cx):
        return [('document_root', self.root(cx) != null)]

    def raises(self, cx, ex):
        return [('C07+C09.collection_accessor_never_raises[%s]' % ex.value.name(), z3.BoolVal(False))]


@contract('mosromgr.moscollection.MosCollection.completed')
class CollCompleted(CollProp):
    def ensures(self, cx, ex):
        v = ex.value
        return [('C07.collection_is_completed_exactly_when_its_running_order_is',
                 v.t == completed(cx.W, cx.H, self.root(cx)) if isinstance(v, SBool) else z3.BoolVal(False)),
                ('C07.reading_the_flag_changes_nothing', z3.BoolVal(not [w for w in ex.st.writes if w[0] in ('kids', 'tag', 'loop', 'merge')]))]


@contract('mosromgr.moscollection.MosCollection.ro')
class CollRo(CollProp):
    def ensures(self, cx, ex):
        v = ex.value
        return [('C09.ro_is_the_running_order_object_of_the_collection', z3.BoolVal(isinstance(v, SObj) and v.oid == self.ro(cx).oid))]


@contract('mosromgr.moscollection.MosCollection.mos_readers')
class CollReaders(CollProp):
    def ensures(self, cx, ex):
        return [('C09.mos_readers_is_the_reader_list_of_the_collection', z3.BoolVal(ex.value is cx.objs[cx.a['self'].oid]['_mos_readers']))]


def _subterms(t, seen=None):
    seen = set() if seen is None else seen
    stack = [t]
    while stack:
        x = stack.pop()
        if x.get_id() in seen:
            continue
        seen.add(x.get_id())
        yield x
        if z3.is_app(x):
            stack.extend(x.children())


@contract('mosromgr.moscollection.MosCollection.__str__')
class CollStr(CollProp):
    props = ('C09', 'C14', 'C19')

    def requires(self, cx):
        return [('document_root', self.root(cx) != null)]

    def ensures(self, cx, ex):
        v = ex.value
        root = self.root(cx)
        ok = False
        if isinstance(v, SStr):
            for x in _subterms(v.t):
                if z3.is_app(x) and x.decl().name().startswith('xml_tostring') and x.num_args() == 1 and z3.eq(x.arg(0), root):
                    ok = True
        return [('C09+C14.str_of_the_collection_is_the_serialisation_of_its_running_order_document', z3.BoolVal(ok))]


class MsgCompleted(Contract):
    """`completed` of a message object: only a running order can be completed, and it is exactly when it records a roDelete"""
    opaque = False
    props = ('C07', 'C19')

    def requires(self, cx):
        return [('document_root', cx.st.fields(cx.a['self'])['_xml'].t != null)]

    def raises(self, cx, ex):
        return [('C07.completed_never_raises[%s]' % ex.value.name(), z3.BoolVal(False))]


@contract('mosromgr.mostypes.RunningOrder.completed')
class ROCompleted(MsgCompleted):
    def entry(self, E):
        st = State(L.Heap(0, 0), z3.IntVal(0))
        root = E.W.fresh('root', Node)
        (st, o), = [r for r in E.instantiate(E.repo.cls('RunningOrder'), [SNode(root)], {}, st) if not isinstance(r[1], Raised)][:1]
        return st, {'self': o}

    def ensures(self, cx, ex):
        v = ex.value
        root = cx.st.fields(cx.a['self'])['_xml'].t
        return [('C07.completed_exactly_when_the_document_records_the_roDelete',
                 v.t == completed(cx.W, cx.H, root) if isinstance(v, SBool) else z3.BoolVal(False))]


@contract('mosromgr.mostypes.MosFile.completed')
class MsgNotCompleted(MsgCompleted):
    def entry(self, E):
        out = []
        for cname in ('StoryAppend', 'RunningOrderEnd', 'EAStoryMove'):
            st = State(L.Heap(0, 0), z3.IntVal(0))
            root = E.W.fresh('root', Node)
            (st, o), = [r for r in E.instantiate(E.repo.cls(cname), [SNode(root)], {}, st) if not isinstance(r[1], Raised)][:1]
            out.append((st, {'self': o}))
        return out

    def ensures(self, cx, ex):
        v = ex.value
        return [('C07.a_message_other_than_a_running_order_is_never_completed', z3.Not(v.t) if isinstance(v, SBool) else z3.BoolVal(False))]


# ------------------------------------------------------------------ delegating accessors and reader getters
def _slug_of(cx, root, base_tag):
    b = cx.H.find(root, cx.W.lit(base_tag))
    return b, cx.H.find(b, cx.W.lit('roSlug'))


class SlugProp(MsgCompleted):
    """ro_slug of a running order / roMetadataReplace: the text of the roSlug of the message element"""
    props = ('C15', 'C20')
    cls_name = 'RunningOrder'
    base_tag = 'roCreate'

    def entry(self, E):
        st = State(L.Heap(0, 0), z3.IntVal(0))
        root = E.W.fresh('root', Node)
        (st, o), = [r for r in E.instantiate(E.repo.cls(self.cls_name), [SNode(root)], {}, st) if not isinstance(r[1], Raised)][:1]
        return st, {'self': o}

    def ensures(self, cx, ex):
        root = cx.st.fields(cx.a['self'])['_xml'].t
        b, s = _slug_of(cx, root, self.base_tag)
        v = ex.value
        vt = none_s if isinstance(v, SNone) else (v.t if isinstance(v, SStr) else None)
        return [('C15+C20.ro_slug_is_the_text_of_the_roSlug_of_the_message_element',
                 A(b != null, s != null, vt == text(s)) if vt is not None else z3.BoolVal(False))]

    def raises(self, cx, ex):
        root = cx.st.fields(cx.a['self'])['_xml'].t
        b, s = _slug_of(cx, root, self.base_tag)
        return [('C15.ro_slug_raises_only_without_a_roSlug[%s]' % ex.value.name(), z3.Or(b == null, s == null))]


@contract('mosromgr.mostypes.RunningOrder.ro_slug')
class ROSlug(SlugProp):
    pass


@contract('mosromgr.mostypes.MetaDataReplace.ro_slug')
class MDRSlug(SlugProp):
    cls_name = 'MetaDataReplace'
    base_tag = 'roMetadataReplace'


@contract('mosromgr.moscollection.MosCollection.ro_slug')
class CollSlug(CollProp):
    def ensures(self, cx, ex):
        b, s = _slug_of(cx, self.root(cx), 'roCreate')
        v = ex.value
        vt = none_s if isinstance(v, SNone) else (v.t if isinstance(v, SStr) else None)
        return [('C09.collection_ro_slug_is_that_of_its_running_order', A(b != null, s != null, vt == text(s)) if vt is not None else z3.BoolVal(False))]

    def raises(self, cx, ex):
        b, s = _slug_of(cx, self.root(cx), 'roCreate')
        return [('C09.collection_ro_slug_raises_only_without_a_roSlug[%s]' % ex.value.name(), z3.Or(b == null, s == null))]


@contract('mosromgr.moscollection.MosCollection.ro_id')
class CollRoId(CollProp):
    def ensures(self, cx, ex):
        b = cx.H.find(self.root(cx), cx.W.lit('roCreate'))
        r = cx.H.find(b, cx.W.lit('roID'))
        v = ex.value
        vt = none_s if isinstance(v, SNone) else (v.t if isinstance(v, SStr) else None)
        return [('C09.collection_ro_id_is_that_of_its_running_order', A(b != null, r != null, vt == text(r)) if vt is not None else z3.BoolVal(False))]

    def raises(self, cx, ex):
        b = cx.H.find(self.root(cx), cx.W.lit('roCreate'))
        return [('C09.collection_ro_id_raises_only_without_a_roID[%s]' % ex.value.name(), z3.Or(b == null, cx.H.find(b, cx.W.lit('roID')) == null))]


class ReaderGetter(Contract):
    """MosReader.message_id / ro_id / mos_type return what the reader recorded when it was built (C18: readers are faithful)"""
    opaque = False
    props = ('C18', 'C10')
    field = None

    def entry(self, E):
        st = State(L.Heap(0, 0), z3.IntVal(0))
        k = E.W.fresh('k', L.I)
        return st, {'self': reader_obj(E, k)}

    def ensures(self, cx, ex):
        want = cx.st.fields(cx.a['self'])[self.field]
        v = ex.value
        same = type(v) is type(want) and hasattr(v, 't') and z3.eq(v.t, want.t)
        return [('C18.reader_%s_is_the_recorded_value' % self.field.strip('_'), z3.BoolVal(bool(same)))]

    def raises(self, cx, ex):
        return [('C18.reader_getter_never_raises[%s]' % ex.value.name(), z3.BoolVal(False))]


for _f in ('message_id', 'ro_id', 'mos_type'):
    _c = type('Reader_' + _f, (ReaderGetter,), {'field': '_' + _f})()
    _c.qualname = 'mosromgr.moscollection.MosReader.' + _f
    REGISTRY[_c.qualname] = _c
