"""Contracts for classification and the constructors (C08, C12, C18)."""
import z3
from pyvc import logic as L
from pyvc.logic import Node, Str, null, none_s, text, attrib
from pyvc.values import *
from pyvc.state import State
from pyvc.contracts import contract, Contract, Case
from .common import A, Imp
from .assumed_lib import wellformed, parse_root, file_text, file_readable

# written from the documentation (docs/mostypes.rst, class docstrings), not from the code's table
TABLE = {
    'roCreate': 'RunningOrder', 'roStorySend': 'StorySend', 'roStoryAppend': 'StoryAppend', 'roStoryDelete': 'StoryDelete',
    'roStoryInsert': 'StoryInsert', 'roStoryMove': 'StoryMove', 'roStoryReplace': 'StoryReplace', 'roItemDelete': 'ItemDelete',
    'roItemInsert': 'ItemInsert', 'roItemMoveMultiple': 'ItemMoveMultiple', 'roItemReplace': 'ItemReplace',
    'roReplace': 'RunningOrderReplace', 'roMetadataReplace': 'MetaDataReplace', 'roReadyToAir': 'ReadyToAir',
    'roDelete': 'RunningOrderEnd', 'roElementAction': None,
}
EA_TABLE = {
    ('REPLACE', False, False): 'EAStoryReplace', ('REPLACE', True, False): 'EAItemReplace',
    ('DELETE', False, False): 'EAStoryDelete', ('DELETE', False, True): 'EAItemDelete',
    ('INSERT', False, False): 'EAStoryInsert', ('INSERT', True, False): 'EAItemInsert',
    ('SWAP', False, False): 'EAStorySwap', ('SWAP', False, True): 'EAItemSwap',
    ('MOVE', False, False): 'EAStoryMove', ('MOVE', True, True): 'EAItemMove',
}


def present(W, H, root, tag):
    return H.find(root, W.lit(tag)) != null


def only(W, H, root, tag):
    return A(present(W, H, root, tag), *[z3.Not(present(W, H, root, t)) for t in TABLE if t != tag])


def ea_key(W, H, root):
    ea = H.find(root, W.lit('roElementAction'))
    tgt = H.find(ea, W.lit('element_target'))
    src = H.find(ea, W.lit('element_source'))
    op = attrib(ea, W.lit('operation'))
    ti = A(tgt != null, H.falen(tgt, W.lit('itemID')) > 0)
    si = H.falen(src, W.lit('itemID')) > 0
    return ea, src, op, ti, si


def ea_recognised(W, H, root, cname=None):
    """the roElementAction has a listed (operation, target shape, source shape) [and it maps to class cname]"""
    ea, src, op, ti, si = ea_key(W, H, root)
    alts = []
    for (o, t, s_), c in EA_TABLE.items():
        if cname is not None and c != cname:
            continue
        alts.append(A(op == W.lit(o), ti == t, si == s_))
    return A(ea != null, src != null, z3.Or(*alts) if alts else z3.BoolVal(False))


def class_clauses(W, H, root, v):
    """clauses at a normal exit returning object v for document root"""
    name = v.cls.name if isinstance(v, SObj) else None
    fs = []
    for tag, cls in TABLE.items():
        if cls is not None:
            fs.append(Imp(only(W, H, root, tag), z3.BoolVal(name == cls)))
        else:
            fs.append(Imp(only(W, H, root, tag), ea_recognised(W, H, root, name)))
    return [('C08.class_is_decided_by_the_message_element_alone', A(*fs)),
            ('C08+C18.object_wraps_the_parsed_document', z3.BoolVal(isinstance(v, SObj)))]


def unknown_clauses(W, H, root, exc):
    name = exc.name()
    out = [('C08+C12.only_UnknownMosFileType[%s]' % name, z3.BoolVal(name == 'UnknownMosFileType'))]
    # a recognised document is never rejected
    fs = []
    for tag, cls in TABLE.items():
        if cls is not None:
            fs.append(z3.Not(only(W, H, root, tag)))
        else:
            fs.append(z3.Not(A(only(W, H, root, tag), ea_recognised(W, H, root))))
    out.append(('C08.rejected_only_without_a_recognised_message_element', A(*fs)))
    return out


class ClassifyBase(Contract):
    config = ('WERR',)
    opaque = False          # loop over a concrete table / loop-free: callers execute the real body

    def root(self, cx):
        return cx.node('xml')

    def requires(self, cx):
        return [('document_root', cx.node('xml') != null)]

    def ensures(self, cx, ex):
        v = ex.value
        out = class_clauses(cx.W, cx.H, self.root(cx), v)
        if isinstance(v, SObj):
            out.append(('C08.wraps_the_given_root', ex.st.fields(v)['_xml'].t == self.root(cx)))
        return out

    def raises(self, cx, ex):
        return unknown_clauses(cx.W, cx.H, self.root(cx), ex.value)


@contract('mosromgr.mostypes.MosFile._classify')
class MosFileClassify(ClassifyBase):
    props = ('C08', 'C12', 'C07')

    def entry(self, E):
        st = State(L.Heap(0, 0), z3.IntVal(0))
        return st, {'cls': SCls(E.repo.cls('MosFile')), 'xml': SNode(E.W.fresh('root', Node))}


@contract('mosromgr.mostypes.ElementAction._classify')
class EAClassify(ClassifyBase):
    props = ('C08', 'C12')

    def entry(self, E):
        st = State(L.Heap(0, 0), z3.IntVal(0))
        return st, {'cls': SCls(E.repo.cls('ElementAction')), 'xml': SNode(E.W.fresh('root', Node))}

    def ensures(self, cx, ex):
        v = ex.value
        W, H, root = cx.W, cx.H, self.root(cx)
        name = v.cls.name if isinstance(v, SObj) else None
        return [('C08.class_is_decided_by_operation_and_item_ids', ea_recognised(W, H, root, name)),
                ('C08.wraps_the_given_root', ex.st.fields(v)['_xml'].t == root if isinstance(v, SObj) else z3.BoolVal(False))]

    def raises(self, cx, ex):
        W, H, root = cx.W, cx.H, self.root(cx)
        return [('C08+C12.only_UnknownMosFileType[%s]' % ex.value.name(), z3.BoolVal(ex.value.name() == 'UnknownMosFileType')),
                ('C08.rejected_only_when_operation_or_shape_is_not_listed', z3.Not(ea_recognised(W, H, root)))]


class FromBase(Contract):
    config = ('WERR',)
    opaque = False

    def ensures(self, cx, ex):
        v = ex.value
        root = self.doc_root(cx)
        out = [('C08.constructed_only_from_well_formed_xml', self.ok(cx))]
        out += class_clauses(cx.W, cx.H, root, v)
        if isinstance(v, SObj):
            out.append(('C08+C18.wraps_the_parsed_document', ex.st.fields(v)['_xml'].t == root))
        return out

    def raises(self, cx, ex):
        name = ex.value.name()
        if name == 'MosInvalidXML':
            return [('C08.MosInvalidXML_only_for_malformed_xml', self.malformed(cx))]
        if name in self.other_errors:
            return [('C08.%s_only_for_an_unreadable_source' % name, self.unreadable(cx))]
        return [('C08.well_formed_xml_is_not_MosInvalidXML', self.ok(cx))] + unknown_clauses(cx.W, cx.H, self.doc_root(cx), ex.value)

    other_errors = ()


@contract('mosromgr.mostypes.MosFile.from_string')
class FromString(FromBase):
    props = ('C08', 'C12', 'C18')

    def entry(self, E):
        st = State(L.Heap(0, 0), z3.IntVal(0))
        s = SStr(E.W.fresh('doc', Str))
        st.assume(s.t != none_s)
        return st, {'cls': SCls(E.repo.cls('MosFile')), 'mos_xml_string': s}

    def doc_root(self, cx): return parse_root(cx.str('mos_xml_string'))
    def ok(self, cx): return wellformed(cx.str('mos_xml_string'))
    def malformed(self, cx): return z3.Not(wellformed(cx.str('mos_xml_string')))


@contract('mosromgr.mostypes.MosFile.from_file')
class FromFile(FromBase):
    props = ('C08', 'C12', 'C18')
    other_errors = ('OSError',)

    def entry(self, E):
        st = State(L.Heap(0, 0), z3.IntVal(0))
        s = SStr(E.W.fresh('path', Str))
        st.assume(s.t != none_s)
        return st, {'cls': SCls(E.repo.cls('MosFile')), 'mos_file_path': s}

    def doc_root(self, cx): return parse_root(file_text(cx.str('mos_file_path')))
    def ok(self, cx): return A(file_readable(cx.str('mos_file_path')), wellformed(file_text(cx.str('mos_file_path'))))
    def malformed(self, cx): return A(file_readable(cx.str('mos_file_path')), z3.Not(wellformed(file_text(cx.str('mos_file_path')))))
    def unreadable(self, cx): return z3.Not(file_readable(cx.str('mos_file_path')))


@contract('mosromgr.mostypes.MosFile.__str__')
class MosFileStr(Contract):
    props = ('C14', 'C18')
    opaque = False

    def entry(self, E):
        st = State(L.Heap(0, 0), z3.IntVal(0))
        o = SObj(E.repo.cls('RunningOrder'), st.new_obj(None))
        st.objs[o.oid] = {'_xml': SNode(E.W.fresh('root', Node)), '_base_tag': NONE}
        return st, {'self': o}

    def requires(self, cx):
        return [('document_root', cx.objs[cx.a['self'].oid]['_xml'].t != null)]

    def ensures(self, cx, ex):
        v = ex.value
        return [('C14.serialisation_is_a_string_computed_from_the_whole_document',
                 A(z3.BoolVal(isinstance(v, SStr)), v.t != none_s) if isinstance(v, SStr) else z3.BoolVal(False))]

    def raises(self, cx, ex):
        return [('C14+C12.serialising_never_raises[%s]' % ex.value.name(), z3.BoolVal(False))]
