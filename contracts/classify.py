"""Contracts for classification and the constructors (C08, C12, C18)."""
import z3
from pyvc import logic as L
from pyvc.logic import Node, Str, null, none_s, text, attrib
from pyvc.values import *
from pyvc.state import State
from pyvc.contracts import contract, Contract, Case, REGISTRY
from .common import A, Imp
from .assumed_lib import wellformed, parse_root, file_text, file_readable

# written from the documentation (docs/mostypes.rst, class docstrings), not from the code's table
TABLE = {
    'roCreate': 'RunningOrder', 'roStorySend': 'StorySend', 'roStoryAppend': 'StoryAppend', 'roStoryDelete': 'StoryDelete',
    'roStoryInsert': 'StoryInsert', 'roStoryMove': 'StoryMove', 'roStoryReplace': 'StoryReplace', 'roItemDelete': 'ItemDelete',
    'roItemInsert': 'ItemInsert', 'roItemMoveMultiple': 'ItemMoveMultiple', 'roItemReplace': 'ItemReplace',
    'roReplace': 'RunningOrderReplace', 'roMetadataReplace': 'MetaDataReplace', 'roReadyToAir': 'ReadyToAir',
    'roDelete': 'RunningOrderEnd', 'roElementAction': None,
}
EA_TABLE = {
    ('REPLACE', False, False): 'EAStoryReplace', ('REPLACE', True, False): 'EAItemReplace',
    ('DELETE', False, False): 'EAStoryDelete', ('DELETE', False, True): 'EAItemDelete',
    ('INSERT', False, False): 'EAStoryInsert', ('INSERT', True, False): 'EAItemInsert',
    ('SWAP', False, False): 'EAStorySwap', ('SWAP', False, True): 'EAItemSwap',
    ('MOVE', False, False): 'EAStoryMove', ('MOVE', True, True): 'EAItemMove',
}


def present(W, H, root, tag):
    return H.find(root, W.lit(tag)) != null


def only(W, H, root, tag):
    return A(present(W, H, root, tag), *[z3.Not(present(W, H, root, t)) for t in TABLE if t != tag])


def ea_key(W, H, root):
    ea = H.find(root, W.lit('roElementAction'))
    tgt = H.find(ea, W.lit('element_target'))
    src = H.find(ea, W.lit('element_source'))
    op = attrib(ea, W.lit('operation'))
    ti = A(tgt != null, H.falen(tgt, W.lit('itemID')) > 0)
    si = H.falen(src, W.lit('itemID')) > 0
    return ea, src, op, ti, si


def ea_recognised(W, H, root, cname=None):
    """the roElementAction has a listed (operation, target shape, source shape) [and it maps to class cname]"""
    ea, src, op, ti, si = ea_key(W, H, root)
    alts = []
    for (o, t, s_), c in EA_TABLE.items():
        if cname is not None and c != cname:
            continue
        alts.append(A(op == W.lit(o), ti == t, si == s_))
    return A(ea != null, src != null, z3.Or(*alts) if alts else z3.BoolVal(False))


def class_clauses(W, H, root, v):
    """clauses at a normal exit returning object v for document root"""
    name = v.cls.name if isinstance(v, SObj) else None
    fs = []
    for tag, cls in TABLE.items():
        if cls is not None:
            fs.append(Imp(only(W, H, root, tag), z3.BoolVal(name == cls)))
        else:
            fs.append(Imp(only(W, H, root, tag), ea_recognised(W, H, root, name)))
    # with several recognised message elements the class still belongs to one of those present (which one is a fixed priority of the
    # library, not stated by the property; independence of their document order is the bounded real-code check's business)
    some = []
    for tag, cls in TABLE.items():
        if cls is not None:
            some.append(A(present(W, H, root, tag), z3.BoolVal(name == cls)))
        else:
            some.append(A(present(W, H, root, tag), ea_recognised(W, H, root, name)))
    return [('C08+C07.class_is_decided_by_the_message_element_alone', A(*fs)),
            ('C08.class_belongs_to_a_message_element_that_is_present', z3.Or(*some)),
            ('C08+C18.object_wraps_the_parsed_document', z3.BoolVal(isinstance(v, SObj)))]


def unknown_clauses(W, H, root, exc):
    name = exc.name()
    out = [('C08+C12.only_UnknownMosFileType[%s]' % name, z3.BoolVal(name == 'UnknownMosFileType'))]
    # a recognised document is never rejected
    fs = []
    for tag, cls in TABLE.items():
        if cls is not None:
            fs.append(z3.Not(only(W, H, root, tag)))
        else:
            fs.append(z3.Not(A(only(W, H, root, tag), ea_recognised(W, H, root))))
    out.append(('C08+C07.rejected_only_without_a_recognised_message_element', A(*fs)))
    return out


class ClassifyBase(Contract):
    config = ('WERR',)
    opaque = False          # loop over a concrete table / loop-free: callers execute the real body

    def root(self, cx):
        return cx.node('xml')

    def requires(self, cx):
        return [('document_root', cx.node('xml') != null)]

    def ensures(self, cx, ex):
        v = ex.value
        out = class_clauses(cx.W, cx.H, self.root(cx), v)
        if isinstance(v, SObj):
            out.append(('C08.wraps_the_given_root', ex.st.fields(v)['_xml'].t == self.root(cx)))
        return out

    def raises(self, cx, ex):
        return unknown_clauses(cx.W, cx.H, self.root(cx), ex.value)


@contract('mosromgr.mostypes.MosFile._classify')
class MosFileClassify(ClassifyBase):
    props = ('C08', 'C12', 'C07')

    def entry(self, E):
        st = State(L.Heap(0, 0), z3.IntVal(0))
        return st, {'cls': SCls(E.repo.cls('MosFile')), 'xml': SNode(E.W.fresh('root', Node))}


@contract('mosromgr.mostypes.ElementAction._classify')
class EAClassify(ClassifyBase):
    props = ('C08', 'C12', 'C20')

    def entry(self, E):
        st = State(L.Heap(0, 0), z3.IntVal(0))
        return st, {'cls': SCls(E.repo.cls('ElementAction')), 'xml': SNode(E.W.fresh('root', Node))}

    def ensures(self, cx, ex):
        v = ex.value
        W, H, root = cx.W, cx.H, self.root(cx)
        name = v.cls.name if isinstance(v, SObj) else None
        return [('C08+C20.class_is_decided_by_operation_and_item_ids', ea_recognised(W, H, root, name)),
                ('C08.wraps_the_given_root', ex.st.fields(v)['_xml'].t == root if isinstance(v, SObj) else z3.BoolVal(False))]

    def raises(self, cx, ex):
        W, H, root = cx.W, cx.H, self.root(cx)
        return [('C08+C12.only_UnknownMosFileType[%s]' % ex.value.name(), z3.BoolVal(ex.value.name() == 'UnknownMosFileType')),
                ('C08+C20.rejected_only_when_operation_or_shape_is_not_listed', z3.Not(ea_recognised(W, H, root)))]


class FromBase(Contract):
    config = ('WERR',)
    opaque = False

    def ensures(self, cx, ex):
        v = ex.value
        root = self.doc_root(cx)
        out = [('C08.constructed_only_from_well_formed_xml', self.ok(cx))]
        out += class_clauses(cx.W, cx.H, root, v)
        if isinstance(v, SObj):
            out.append(('C08+C18.wraps_the_parsed_document', ex.st.fields(v)['_xml'].t == root))
        return out

    def raises(self, cx, ex):
        name = ex.value.name()
        if name == 'MosInvalidXML':
            return [('C08.MosInvalidXML_only_for_malformed_xml', self.malformed(cx))]
        if name in self.other_errors:
            return [('C08.%s_only_for_an_unreadable_source' % name, self.unreadable(cx))]
        return [('C08.well_formed_xml_is_not_MosInvalidXML', self.ok(cx))] + unknown_clauses(cx.W, cx.H, self.doc_root(cx), ex.value)

    other_errors = ()


@contract('mosromgr.mostypes.MosFile.from_string')
class FromString(FromBase):
    props = ('C08', 'C12', 'C18')

    def entry(self, E):
        st = State(L.Heap(0, 0), z3.IntVal(0))
        s = SStr(E.W.fresh('doc', Str))
        st.assume(s.t != none_s)
        return st, {'cls': SCls(E.repo.cls('MosFile')), 'mos_xml_string': s}

    def doc_root(self, cx): return parse_root(cx.str('mos_xml_string'))
    def ok(self, cx): return wellformed(cx.str('mos_xml_string'))
    def malformed(self, cx): return z3.Not(wellformed(cx.str('mos_xml_string')))


@contract('mosromgr.mostypes.MosFile.from_file')
class FromFile(FromBase):
    props = ('C08', 'C12', 'C18')
    other_errors = ('OSError',)

    def entry(self, E):
        st = State(L.Heap(0, 0), z3.IntVal(0))
        s = SStr(E.W.fresh('path', Str))
        st.assume(s.t != none_s)
        return st, {'cls': SCls(E.repo.cls('MosFile')), 'mos_file_path': s}

    def doc_root(self, cx): return parse_root(file_text(cx.str('mos_file_path')))
    def ok(self, cx): return A(file_readable(cx.str('mos_file_path')), wellformed(file_text(cx.str('mos_file_path'))))
    def malformed(self, cx): return A(file_readable(cx.str('mos_file_path')), z3.Not(wellformed(file_text(cx.str('mos_file_path')))))
    def unreadable(self, cx): return z3.Not(file_readable(cx.str('mos_file_path')))


@contract('mosromgr.mostypes.MosFile.__str__')
class MosFileStr(Contract):
    props = ('C14', 'C18')
    opaque = False

    def entry(self, E):
        st = State(L.Heap(0, 0), z3.IntVal(0))
        o = SObj(E.repo.cls('RunningOrder'), st.new_obj(None))
        st.objs[o.oid] = {'_xml': SNode(E.W.fresh('root', Node)), '_base_tag': NONE}
        return st, {'self': o}

    def requires(self, cx):
        return [('document_root', cx.objs[cx.a['self'].oid]['_xml'].t != null)]

    def ensures(self, cx, ex):
        v = ex.value
        root = cx.objs[cx.a['self'].oid]['_xml'].t
        escaped = False
        if isinstance(v, SStr):
            t = v.t
            # the ElementTree serialisation of the whole document with EVERY carriage return written as a character reference
            # (A-ET-RT is stated for exactly this text: a literal U+000D would be read back as a line feed)
            if z3.is_app(t) and t.decl().name() == 'str_replace' and t.num_args() == 3:
                x, a, b = t.arg(0), t.arg(1), t.arg(2)
                escaped = (z3.is_app(x) and x.decl().name().startswith('xml_tostring') and x.num_args() == 1 and z3.eq(x.arg(0), root)
                           and z3.eq(a, cx.W.lit('\r')) and any(z3.eq(b, cx.W.lit(r)) for r in ('&#13;', '&#xD;', '&#xd;', '&#x0D;')))
        return [('C14.serialisation_is_a_string_computed_from_the_whole_document',
                 A(z3.BoolVal(isinstance(v, SStr)), v.t != none_s) if isinstance(v, SStr) else z3.BoolVal(False)),
                ('C14.every_carriage_return_is_written_as_a_character_reference', z3.BoolVal(escaped))]

    def raises(self, cx, ex):
        return [('C14+C12.serialising_never_raises[%s]' % ex.value.name(), z3.BoolVal(False))]


# ------------------------------------------------------------------ S3 source and readers (C18)
s3_content = L.mkfun('s3_content', Str, Str, Str)


@contract('mosromgr.utils.s3.get_file_contents')
class GetFileContents(Contract):
    props = ('C18',)
    opaque = False

    def entry(self, E):
        st = State(L.Heap(0, 0), z3.IntVal(0))
        b, k = SStr(E.W.fresh('bucket', Str)), SStr(E.W.fresh('key', Str))
        st.assume(b.t != none_s, k.t != none_s)
        return st, {'bucket_name': b, 'file_key': k}

    def ensures(self, cx, ex):
        v = ex.value
        return [('C18.returns_the_bytes_stored_under_the_key',
                 v.t == s3_content(cx.str('bucket_name'), cx.str('file_key')) if isinstance(v, SStr) else z3.BoolVal(False))]

    def raises(self, cx, ex):
        return [('C18.download_does_not_fail_in_the_library', z3.BoolVal(False))]


@contract('mosromgr.mostypes.MosFile.from_s3')
class FromS3(FromBase):
    props = ('C08', 'C12', 'C18')

    def entry(self, E):
        st = State(L.Heap(0, 0), z3.IntVal(0))
        b, k = SStr(E.W.fresh('bucket', Str)), SStr(E.W.fresh('key', Str))
        st.assume(b.t != none_s, k.t != none_s)
        return st, {'cls': SCls(E.repo.cls('MosFile')), 'bucket_name': b, 'mos_file_key': k}

    def content(self, cx): return s3_content(cx.str('bucket_name'), cx.str('mos_file_key'))
    def doc_root(self, cx): return parse_root(self.content(cx))
    def ok(self, cx): return wellformed(self.content(cx))
    def malformed(self, cx): return z3.Not(wellformed(self.content(cx)))


BASE_TAG = {v: k for k, v in TABLE.items() if v}
for _c in EA_TABLE.values():
    BASE_TAG[_c] = 'roElementAction'


def schema_doc(W, H, root):
    """schema-shaped envelope: integer messageID, and the message element (whichever it is) carries a roID"""
    mid = H.find(root, W.lit('messageID'))
    fs = [mid != null, L.is_int(text(mid))]
    for tag in TABLE:
        fs.append(Imp(present(W, H, root, tag), H.find(H.find(root, W.lit(tag)), W.lit('roID')) != null))
    return A(*fs)


class ReaderFrom(Contract):
    """MosReader.from_string / from_file / from_s3: the reader reports the message id, running-order id and class of
    the message, and stores the constructor of that class with the same arguments (so mos_object restores an equal object)"""
    props = ('C18', 'C10', 'C09')
    opaque = False
    ctor = None          # name of the MosFile classmethod that must be stored as restore_fn

    def requires(self, cx):
        return [('document_is_schema_shaped_when_well_formed', Imp(self.ok(cx), schema_doc(cx.W, cx.H, self.doc_root(cx))))]

    def ensures(self, cx, ex):
        v = ex.value
        W, H = cx.W, cx.H
        root = self.doc_root(cx)
        if not isinstance(v, SObj) or v.cls.name != 'MosReader':
            return [('C18.returns_a_reader', z3.BoolVal(False))]
        f = ex.st.fields(v)
        mt = f['_mos_type']
        cname = mt.cls.name if isinstance(mt, SCls) and not isinstance(mt.cls, str) else None
        probe = SObj(mt.cls, 0) if cname else None
        out = [('C18.reader_only_for_a_well_formed_document', self.ok(cx))]
        out.append(('C18+C10.reader_reports_the_numeric_message_id',
                    f['_message_id'].t == L.int_of(text(H.find(root, W.lit('messageID')))) if isinstance(f['_message_id'], SInt) else z3.BoolVal(False)))
        out += [('C18.reader_reports_the_class_the_library_assigns', class_clauses(W, H, root, probe)[0][1] if probe else z3.BoolVal(False))]
        bt = BASE_TAG.get(cname)
        out.append(('C18.reader_reports_the_running_order_id',
                    f['_ro_id'].t == text(H.find(H.find(root, W.lit(bt)), W.lit('roID'))) if bt and isinstance(f['_ro_id'], SStr) else z3.BoolVal(False)))
        rf, ra = f['_restore_fn'], f['_restore_args']
        ok_fn = isinstance(rf, SFunc) and rf.fi is not None and rf.fi.qualname == 'mosromgr.mostypes.MosFile.' + self.ctor and \
            isinstance(rf.self_val, SCls) and rf.self_val.cls is mt.cls
        args = self.ctor_args(cx)
        ok_args = isinstance(ra, STuple) and len(ra.items) == len(args)
        out.append(('C18.restores_through_the_constructor_of_the_same_class_with_the_same_arguments',
                    A(z3.BoolVal(ok_fn and ok_args), *[a.t == b.t for a, b in zip(ra.items, args)]) if ok_args else z3.BoolVal(False)))
        return out

    def raises(self, cx, ex):
        name = ex.value.name()
        if name in self.other_errors:
            return [('C18.%s_only_for_an_unreadable_source' % name, self.unreadable(cx))]
        return [('C18+C12.only_library_exceptions[%s]' % name, z3.BoolVal(exc_isinstance(ex.value.cls, 'MosRoMgrException')))]

    other_errors = ()


@contract('mosromgr.moscollection.MosReader.from_string')
class ReaderFromStringBody(ReaderFrom):
    ctor = 'from_string'

    def entry(self, E):
        st = State(L.Heap(0, 0), z3.IntVal(0))
        s = SStr(E.W.fresh('doc', Str))
        st.assume(s.t != none_s)
        return st, {'cls': SCls(E.repo.cls('MosReader')), 'mos_file_contents': s}

    def doc_root(self, cx): return parse_root(cx.str('mos_file_contents'))
    def ok(self, cx): return wellformed(cx.str('mos_file_contents'))
    def ctor_args(self, cx): return [cx.a['mos_file_contents']]


@contract('mosromgr.moscollection.MosReader.from_file')
class ReaderFromFileBody(ReaderFrom):
    ctor = 'from_file'
    other_errors = ('OSError',)

    def entry(self, E):
        st = State(L.Heap(0, 0), z3.IntVal(0))
        s = SStr(E.W.fresh('path', Str))
        st.assume(s.t != none_s)
        return st, {'cls': SCls(E.repo.cls('MosReader')), 'mos_file_path': s}

    def doc_root(self, cx): return parse_root(file_text(cx.str('mos_file_path')))
    def ok(self, cx): return A(file_readable(cx.str('mos_file_path')), wellformed(file_text(cx.str('mos_file_path'))))
    def unreadable(self, cx): return z3.Not(file_readable(cx.str('mos_file_path')))
    def ctor_args(self, cx): return [cx.a['mos_file_path']]


@contract('mosromgr.moscollection.MosReader.from_s3')
class ReaderFromS3Body(ReaderFrom):
    ctor = 'from_s3'

    def entry(self, E):
        st = State(L.Heap(0, 0), z3.IntVal(0))
        b, k = SStr(E.W.fresh('bucket', Str)), SStr(E.W.fresh('key', Str))
        st.assume(b.t != none_s, k.t != none_s)
        return st, {'cls': SCls(E.repo.cls('MosReader')), 'bucket_name': b, 'mos_file_key': k}

    def content(self, cx): return s3_content(cx.str('bucket_name'), cx.str('mos_file_key'))
    def doc_root(self, cx): return parse_root(self.content(cx))
    def ok(self, cx): return wellformed(self.content(cx))
    def ctor_args(self, cx): return [cx.a['bucket_name'], cx.a['mos_file_key']]


# the functional, caller-facing view (used inside comprehensions of MosCollection.from_*) stays available
from . import collection as _col
for _q, _cls in (('mosromgr.moscollection.MosReader.from_string', _col.ReaderFromString), ('mosromgr.moscollection.MosReader.from_file', _col.ReaderFromFile),
                 ('mosromgr.moscollection.MosReader.from_s3', _col.ReaderFromS3)):
    _inst = REGISTRY[_q]
    type(_inst).opaque = True
    type(_inst).cases = _cls.cases


@contract('mosromgr.moscollection.MosReader.mos_object')
class MosObjectBody(Contract):
    """body proof of MosReader.mos_object for a reader built by from_string, one variant per message class;
    MosCollection.merge uses the caller-facing view (collection.ReaderMosObject)"""
    props = ('C18', 'C09', 'C13')
    opaque = True

    def entry(self, E):
        out = []
        fs = E.repo.functions['mosromgr.mostypes.MosFile.from_string']
        for cname in sorted(set(BASE_TAG)):
            st = State(L.Heap(0, 0), z3.IntVal(0))
            s = SStr(E.W.fresh('doc', Str))
            st.assume(s.t != none_s)
            cls = E.repo.cls(cname)
            rd = SObj(E.repo.cls('MosReader'), st.new_obj(None))
            st.objs[rd.oid] = {'_message_id': SInt(E.W.fresh('mid', L.I)), '_ro_id': SStr(E.W.fresh('roid', Str)), '_mos_type': SCls(cls),
                               '_restore_fn': SFunc(fs, self_val=SCls(cls)), '_restore_args': STuple([s]), '$doc': s}
            # fields that the real MosReader.__init__ sets to None beyond the five above (e.g. an empty cache slot)
            import ast as _ast
            for n in _ast.walk(E.repo.functions['mosromgr.moscollection.MosReader.__init__'].node):
                if isinstance(n, _ast.Assign) and len(n.targets) == 1 and isinstance(n.targets[0], _ast.Attribute) \
                        and isinstance(n.targets[0].value, _ast.Name) and n.targets[0].value.id == 'self' \
                        and isinstance(n.value, _ast.Constant) and n.value.value is None:
                    st.objs[rd.oid].setdefault(n.targets[0].attr, NONE)
            out.append((st, {'self': rd}))
        return out

    def ensures(self, cx, ex):
        rd = cx.a['self']
        f = cx.st.fields(rd)
        v = ex.value
        s = f['$doc']
        ok = isinstance(v, SObj) and v.cls is f['_mos_type'].cls
        out = [('C18+C09+C13.restores_an_object_of_the_recorded_class_over_a_fresh_parse_of_the_same_document',
                A(z3.BoolVal(ok), wellformed(s.t), ex.st.fields(v)['_xml'].t == parse_root(s.t)) if ok else z3.BoolVal(False))]
        # a reader hands out a new object on every access: it must not keep the restored object (or anything
        # else it did not hold before) - two collections built from the same readers would share a running order
        after = ex.st.fields(rd)
        kept = [k for k, fv in after.items() if isinstance(fv, SObj) and isinstance(v, SObj) and fv.oid == v.oid]
        changed = [k for k, fv in after.items() if not k.startswith('$') and (k not in f or f[k] is not fv)]
        out.append(('C09+C13+C18.reader_keeps_no_reference_to_the_restored_object', z3.BoolVal(not kept)))
        out.append(('C09+C13+C18.restoring_changes_no_field_of_the_reader', z3.BoolVal(not changed)))
        return out

    def raises(self, cx, ex):
        s = cx.st.fields(cx.a['self'])['$doc']
        return [('C18+C09+C13.restoring_fails_only_if_the_document_is_no_longer_well_formed[%s]' % ex.value.name(),
                 A(z3.BoolVal(ex.value.name() == 'MosInvalidXML'), z3.Not(wellformed(s.t))))]


MosObjectBody.cases = _col.ReaderMosObject.cases
MosObjectBody.assumed = False
