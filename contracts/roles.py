"""Name-free identification of the locals a loop invariant talks about (so that renaming a local in /repo
does not detach the contract): by role, from the ghost log of find_child results and from the loop header."""
import z3
from pyvc.values import *
from pyvc.logic import null


def found_nodes(st):
    """nodes returned by the find_child calls so far, in call order (null for 'not found')"""
    return [a[1] for a in st.addlog if a[0] == 'found']


def _is_enumerate(lp):
    e0 = lp.seq.elem(z3.IntVal(0))
    return isinstance(e0, STuple) and isinstance(e0.items[0], SInt)


def enum_start(lp):
    """start value S of `for i, x in enumerate(xs, start=S)`, or - for the hand-written form `i = S; for x in xs: ...; i += 1` -
    the value at loop entry of the one int local the body modifies (counter_invariant() then ties that local to the iteration)"""
    e0 = lp.seq.elem(z3.IntVal(0))
    if _is_enumerate(lp):
        return z3.simplify(e0.items[0].t)
    try:
        name = unique_local(lp, SInt)
    except KeyError:
        raise KeyError('loop is neither an enumerate(..., start=...) loop nor a loop with one int counter')
    return lp.entry.locals[name].t


def enum_base(lp):
    """the list the loop walks over (under enumerate or directly)"""
    return lp.seq.base if _is_enumerate(lp) and getattr(lp.seq, 'base', None) is not None else lp.seq


def counter_invariant(lp, start, advanced):
    """for the hand-written counter form: the counter equals start + advanced at the loop head (nothing for enumerate loops)"""
    if _is_enumerate(lp):
        return []
    try:
        name = unique_local(lp, SInt)
    except KeyError:
        return []       # no counter at all (e.g. an append loop)
    cur = lp.st.locals.get(name)
    return [('counter_follows_the_iteration', cur.t == start + advanced if isinstance(cur, SInt) else z3.BoolVal(False))]


def unique_local(lp, typ, where='entry'):
    """the unique local of the given value type that the loop body modifies"""
    st = lp.entry
    names = [n for n in sorted(lp.mods) if isinstance(st.locals.get(n), typ) and not n.startswith('$')]
    if len(names) != 1:
        raise KeyError('cannot identify the %s local modified by the loop: candidates %s' % (getattr(typ, '__name__', typ), names))
    return names[0]
