"""Name-free identification of the locals a loop invariant talks about (so that renaming a local in /repo
does not detach the contract): by role, from the ghost log of find_child results and from the loop header."""
import z3
from pyvc.values import *
from pyvc.logic import null


def found_nodes(st):
    """nodes returned by the find_child calls so far, in call order (null for 'not found')"""
    return [a[1] for a in st.addlog if a[0] == 'found']


def enum_start(lp):
    """start value of `for i, x in enumerate(xs, start=S)`"""
    e0 = lp.seq.elem(z3.IntVal(0))
    if isinstance(e0, STuple) and isinstance(e0.items[0], SInt):
        return z3.simplify(e0.items[0].t)
    raise KeyError('loop is not an enumerate(..., start=...) loop')


def unique_local(lp, typ, where='entry'):
    """the unique local of the given value type that the loop body modifies"""
    st = lp.entry
    names = [n for n in sorted(lp.mods) if isinstance(st.locals.get(n), typ) and not n.startswith('$')]
    if len(names) != 1:
        raise KeyError('cannot identify the %s local modified by the loop: candidates %s' % (typ.__name__, names))
    return names[0]
