"""Contracts for RunningOrder.__add__, the abstract MosFile.merge, MosReader and MosCollection
(C07, C09, C10, C11, C12)."""
import z3
from pyvc import logic as L
from pyvc.logic import Node, Str, null, none_s, text, is_msg, born, forall_nodes, forall_ints
from pyvc.values import *
from pyvc.state import State
from pyvc.contracts import contract, Contract, Case, LoopSpec
from .common import *

# ghost vocabulary about the (static) message trees of a collection
msg_ok = L.mkfun('msg_ok', Node, L.B)            # "schema-shaped message" (Shape_T of its class)
is_end = L.mkfun('is_roDelete', Node, L.B)       # the message is a roDelete (class RunningOrderEnd)
mroot_of = L.mkfun('mroot_of', L.I, Node)        # root element restored by reader k
mtype_of = L.mkfun('mtype_of', L.I, L.Cls)       # class of the message of reader k
mid_of = L.mkfun('mid_of', L.I, L.I)             # its message id
roid_of = L.mkfun('roid_of', L.I, Str)           # its running order id


def completed(W, H, root):
    return H.find(root, W.lit('mosromgrmeta')) != null


def havoc_heap(st, W, writes_tags=True):
    H2 = L.Heap(L.nv(), L.nv())
    clk = W.fresh('clock', L.I)
    st.assume(clk >= st.clock)
    st.clock = clk
    st.heap = H2
    st.versions.append((H2, clk))
    return H2


@contract('mosromgr.mostypes.MosFile.merge')
class AbstractMerge(Contract):
    """Abstract contract of `other.merge(ro)` (dynamic dispatch).  Every override is a MergeContract whose
    std_normal / std_raise clauses (RO_Inv preserved, ownership, returns ro, only MosMergeError, unchanged on
    raise, completion only by roDelete) are exactly this postcondition: behavioural subtyping by construction."""
    props = ()
    no_body = True

    def requires(self, cx):
        ro, me = cx.a['other'], cx.a['self']
        root = cx.st.fields(ro)['_xml'].t
        mroot = cx.st.fields(me)['_xml'].t
        return ([(n, f) for n, f in ro_inv(cx.W, cx.H, root)] + ownership(cx.H) +
                [('message_is_schema_shaped', A(is_msg(mroot), msg_ok(mroot))),
                 ('not_completed', z3.Not(completed(cx.W, cx.H, root)))])

    def cases(self, cx):
        ro, me = cx.a['other'], cx.a['self']
        W = cx.W
        root = cx.st.fields(ro)['_xml'].t
        mroot = cx.st.fields(me)['_xml'].t
        H0 = cx.H

        def eff_normal(st):
            H2 = havoc_heap(st, W)
            for n, f in ro_inv(W, H2, root) + ownership(H2):
                st.assume(f)
            st.assume(completed(W, H2, root) == is_end(mroot))
            st.writes.append(('merge', root, H0, None))
        return [Case('merged', ret=ro, effect=eff_normal),
                Case('merge_error', exc='MosMergeError')]


@contract('mosromgr.mostypes.RunningOrder.__add__')
class RunningOrderAdd(Contract):
    props = ('C07', 'C09', 'C12', 'C14')

    def entry(self, E):
        W = E.W
        st = State(L.Heap(0, 0), z3.IntVal(0))
        root, mroot = W.fresh('root', Node), W.fresh('mroot', Node)
        ro = SObj(E.repo.cls('RunningOrder'), st.new_obj(None))
        st.objs[ro.oid] = {'_xml': SNode(root), '_base_tag': NONE}
        me = SObj(E.repo.cls('MosFile'), st.new_obj(None))
        st.objs[me.oid] = {'_xml': SNode(mroot), '_base_tag': NONE}
        return st, {'self': ro, 'other': me}

    def requires(self, cx):
        root = cx.st.fields(cx.a['self'])['_xml'].t
        mroot = cx.st.fields(cx.a['other'])['_xml'].t
        return ([(n, f) for n, f in ro_inv(cx.W, cx.H, root)] + ownership(cx.H) +
                [('message_is_schema_shaped', A(is_msg(mroot), msg_ok(mroot)))])

    def cases(self, cx):
        ro, me = cx.a['self'], cx.a['other']
        W, H0 = cx.W, cx.H
        root = cx.st.fields(ro)['_xml'].t
        mroot = cx.st.fields(me)['_xml'].t
        done = completed(W, H0, root)

        def log(st):
            st.addlog.append(('add', me))

        def eff_normal(st):
            log(st)
            H2 = havoc_heap(st, W)
            for n, f in ro_inv(W, H2, root) + ownership(H2):
                st.assume(f)
            st.assume(completed(W, H2, root) == is_end(mroot))
            st.writes.append(('merge', root, H0, None))
        return [Case('completed', exc='MosCompletedMergeError', assume=[done], effect=log),
                Case('merged', ret=ro, assume=[z3.Not(done)], effect=eff_normal),
                Case('merge_error', exc='MosMergeError', assume=[z3.Not(done)], effect=log)]

    def ensures(self, cx, ex):
        root = cx.st.fields(cx.a['self'])['_xml'].t
        mroot = cx.st.fields(cx.a['other'])['_xml'].t
        W = cx.W
        out = [('returns_the_running_order', z3.BoolVal(isinstance(ex.value, SObj) and ex.value.oid == cx.a['self'].oid))]
        out += [('C14+RO_Inv.preserved.' + n.split('.', 1)[1], f) for n, f in ro_inv(W, ex.H, root)]
        out += [('C13.' + n, f) for n, f in ownership(ex.H)]
        out.append(('C07.a_completed_running_order_accepts_nothing', z3.Not(completed(W, cx.H, root))))
        out.append(('C07.completed_afterwards_exactly_when_the_message_is_a_roDelete', completed(W, ex.H, root) == is_end(mroot)))
        return out

    def raises(self, cx, ex):
        root = cx.st.fields(cx.a['self'])['_xml'].t
        W = cx.W
        name = ex.value.name()
        nowrites = not [w for w in ex.st.writes if w[0] in ('kids', 'tag', 'loop', 'merge')]
        out = [('C12.only_MosMergeError[%s]' % name, z3.BoolVal(exc_isinstance(ex.value.cls, 'MosMergeError'))),
               ('C05+C07.nothing_changes_when_the_add_raises', z3.BoolVal(nowrites))]
        if name == 'MosCompletedMergeError':
            out.append(('C07.MosCompletedMergeError_only_when_completed', completed(W, cx.H, root)))
        else:
            out.append(('C07.a_completed_running_order_raises_MosCompletedMergeError', z3.Not(completed(W, cx.H, root))))
        return out


def reader_obj(E, k):
    cls = E.repo.cls('MosReader')
    State._oid[0] += 1
    return SObj(cls, State._oid[0], init_fields={
        '_message_id': SInt(mid_of(k)), '_ro_id': SStr(roid_of(k)), '_mos_type': SSymCls(mtype_of(k)),
        '_restore_fn': NONE, '_restore_args': NONE, '$idx': SInt(k)})


@contract('mosromgr.moscollection.MosReader.mos_object')
class ReaderMosObject(Contract):
    """assumed (A-ET-PARSE + the restore closure stored by MosReader.from_*, see C18): restoring reader k yields a
    message object over the (unmodified) message tree k, of the class recorded by the reader"""
    props = ()
    assumed = True

    def cases(self, cx):
        me = cx.a['self']
        k = cx.st.fields(me)['$idx'].t
        E = cx.E
        cls = E.repo.cls('MosFile')
        State._oid[0] += 1
        o = SObj(cls, State._oid[0], init_fields={'_xml': SNode(mroot_of(k)), '_base_tag': NONE, '$idx': SInt(k),
                                                 '$cls': SSymCls(mtype_of(k))})
        E.assumed_used.add('A-ET-PARSE')
        return [Case('restored', ret=o)]


class CollectionMergeLoop(LoopSpec):
    writes_heap = True
    writes_tags = True

    def __init__(self, owner):
        self.o = owner

    def invariant(self, cx, lp):
        root = self.o.root(cx)
        H = lp.st.heap
        out = [(n, f) for n, f in ro_inv(cx.W, H, root)] + ownership(H)
        me = cx.a['self']
        cur = lp.st.fields(me)['_ro']
        out.append(('collection_keeps_its_running_order_object', z3.BoolVal(isinstance(cur, SObj) and cur.oid == cx.objs[me.oid]['_ro'].oid)))
        return out

    def iteration(self, cx, lp):
        adds = lp.st.addlog[len(lp.head.addlog):]
        k = lp.k
        out = []
        ok = len(adds) == 1
        if ok:
            m = adds[0][1]
            idx = lp.st.fields(m).get('$idx')
            out.append(('C09.adds_the_message_restored_from_reader_k_exactly_once',
                        idx.t == k if idx is not None else z3.BoolVal(False)))
        else:
            out.append(('C09.adds_the_message_restored_from_reader_k_exactly_once', z3.BoolVal(False)))
        failed = any(t.startswith('except:') for t in lp.st.trace[len(lp.head.trace):])
        strict = cx.a['strict']
        w = lp.st.warns
        if failed:
            out.append(('C09.non_strict_skips_a_failing_message_with_exactly_one_MosMergeNonStrictWarning',
                        A(z3.BoolVal(w == ['MosMergeNonStrictWarning']), z3.Not(strict.t))))
        else:
            out.append(('C09.no_warning_for_a_message_that_merged', z3.BoolVal(w == [])))
        return out


@contract('mosromgr.moscollection.MosCollection.merge')
class CollectionMerge(Contract):
    props = ('C09', 'C12', 'C07')

    def entry(self, E):
        W = E.W
        st = State(L.Heap(0, 0), z3.IntVal(0))
        root = W.fresh('root', Node)
        ro = SObj(E.repo.cls('RunningOrder'), st.new_obj(None))
        st.objs[ro.oid] = {'_xml': SNode(root), '_base_tag': NONE}
        n = W.fresh('n_readers', L.I)
        st.assume(n >= 0)
        readers = SList(n, lambda k: reader_obj(E, k), desc='mos_readers')
        me = SObj(E.repo.cls('MosCollection'), st.new_obj(None))
        st.objs[me.oid] = {'_mos_readers': readers, '_ro': ro}
        return st, {'self': me, 'strict': SBool(W.fresh('strict', L.B))}

    def root(self, cx):
        return cx.objs[cx.objs[cx.a['self'].oid]['_ro'].oid]['_xml'].t

    def requires(self, cx):
        root = self.root(cx)
        k = z3.Int('k!rd')
        return ([(n, f) for n, f in ro_inv(cx.W, cx.H, root)] + ownership(cx.H) +
                [('every_reader_restores_a_schema_shaped_message',
                  z3.ForAll([k], A(is_msg(mroot_of(k)), msg_ok(mroot_of(k))), patterns=[mroot_of(k)]))])

    def loop(self, ordinal):
        if ordinal == 0:
            return CollectionMergeLoop(self)

    def ensures(self, cx, ex):
        lp = ex.loop(0)
        out = [('C09.every_message_is_added_in_reader_order', z3.BoolVal(lp is not None and not getattr(lp, 'broke', False)))]
        out += [('C14+RO_Inv.preserved.' + n.split('.', 1)[1], f) for n, f in ro_inv(cx.W, ex.H, self.root(cx))]
        return out

    def raises(self, cx, ex):
        strict = cx.a['strict']
        # the error that leaves is the failing message's own (as in a hand fold): the very exception `ro += mo` raised,
        # or one of the same class raised from it - a completed running order must surface as MosCompletedMergeError
        v = ex.value
        add = 'contract mosromgr.mostypes.RunningOrder.__add__'
        src = v if str(getattr(v, 'origin', '')).startswith(add) else getattr(v, 'cause', None)
        same = isinstance(src, SExc) and str(src.origin).startswith(add) and src.name() == v.name()
        return [('C09+C12.only_a_merge_error_in_strict_mode_stops_the_collection_merge',
                 A(z3.BoolVal(exc_isinstance(ex.value.cls, 'MosMergeError')), strict.t)),
                ('C07+C09.strict_mode_lets_the_error_class_of_the_failing_message_escape', z3.BoolVal(bool(same)))]


# ------------------------------------------------------------------ validation (C11)
@contract('mosromgr.moscollection.MosCollection.__init__')
class CollectionInit(Contract):
    props = ('C11', 'C09')
    config = ('OPT',)

    def entry(self, E):
        W = E.W
        st = State(L.Heap(0, 0), z3.IntVal(0))
        n = W.fresh('n_readers', L.I)
        st.assume(n >= 0)
        readers = SList(n, lambda k: reader_obj(E, k), desc='mos_readers')
        me = SObj(E.repo.cls('MosCollection'), st.new_obj(None))
        st.objs[me.oid] = {}
        self._n = n
        return st, {'self': me, 'mos_readers': readers, 'allow_incomplete': SBool(W.fresh('allow_incomplete', L.B))}

    def accept(self, cx):
        E = cx.E
        n = cx.a['mos_readers'].length
        allow = cx.a['allow_incomplete'].t
        RO, END = cx.W.clsconst('RunningOrder'), cx.W.clsconst('RunningOrderEnd')
        k, k2 = z3.Ints('k!v k2!v')
        inr = lambda x: A(0 <= x, x < n)
        same_ro = z3.ForAll([k], Imp(inr(k), roid_of(k) == roid_of(0)))
        one_create = z3.Exists([k], A(inr(k), mtype_of(k) == RO, z3.ForAll([k2], Imp(A(inr(k2), mtype_of(k2) == RO), k2 == k))))
        at_most_one_end = z3.ForAll([k, k2], Imp(A(inr(k), inr(k2), mtype_of(k) == END, mtype_of(k2) == END), k == k2))
        some_end = z3.Exists([k], A(inr(k), mtype_of(k) == END))
        return A(n > 0, same_ro, one_create, at_most_one_end, z3.Or(allow, some_end))

    def ensures(self, cx, ex):
        me = cx.a['self']
        f = ex.st.fields(me)
        out = [('C11.accepted_only_when_the_list_describes_one_running_order', self.accept(cx))]
        ro = f.get('_ro')
        RO = cx.W.clsconst('RunningOrder')
        n = cx.a['mos_readers'].length
        idx = ex.st.fields(ro).get('$idx') if isinstance(ro, SObj) else None
        out.append(('C11+C09.the_collection_running_order_is_the_roCreate',
                    A(0 <= idx.t, idx.t < n, mtype_of(idx.t) == RO) if idx is not None else z3.BoolVal(False)))
        rd = f.get('_mos_readers')
        j, j2, k = z3.Ints('j!v j2!v k!v')
        if isinstance(rd, SList) and hasattr(rd, 'src'):
            ridx = lambda jj: ex.st.fields(rd.elem(jj))['$idx'].t if False else rd.src(jj)
            out.append(('C11+C09.remaining_readers_are_all_the_others_in_order',
                        A(z3.ForAll([j], Imp(A(0 <= j, j < rd.length), A(0 <= rd.src(j), rd.src(j) < n, mtype_of(rd.src(j)) != RO))),
                          z3.ForAll([j, j2], Imp(A(0 <= j, j < j2, j2 < rd.length), rd.src(j) < rd.src(j2))),
                          z3.ForAll([k], Imp(A(0 <= k, k < n, mtype_of(k) != RO), A(0 <= rd.dst(k), rd.dst(k) < rd.length, rd.src(rd.dst(k)) == k))))))
        else:
            out.append(('C11+C09.remaining_readers_are_all_the_others_in_order', z3.BoolVal(False)))
        return out

    def raises(self, cx, ex):
        return [('C11.rejected_with_InvalidMosCollection[%s]' % ex.value.name(), z3.BoolVal(ex.value.name() == 'InvalidMosCollection')),
                ('C11.rejected_only_when_the_list_does_not_describe_one_running_order', z3.Not(self.accept(cx)))]


# ------------------------------------------------------------------ ordering (C10) and readers (C18)
from .assumed_lib import wellformed, parse_root, file_text, file_readable
from pyvc.logic import int_of, is_int

doc_cls = L.mkfun('doc_class', Node, L.Cls)          # class the library assigns to the document with this root (C08)
doc_ok = L.mkfun('doc_classifiable', Node, L.B)      # classification succeeds (C08) and the message is schema-shaped


def reader_for_root(E, root, src_kind, src_val):
    cls = E.repo.cls('MosReader')
    State._oid[0] += 1
    H0 = L.Heap(0, 0)
    return SObj(cls, State._oid[0], init_fields={
        '_message_id': SInt(int_of(text(H0.find(root, E.W.lit('messageID'))))),
        '_ro_id': SStr(L.mkfun('doc_roid', Node, Str)(root)),
        '_mos_type': SSymCls(doc_cls(root)),
        '_restore_fn': NONE, '_restore_args': NONE, '$root': SNode(root), '$src': src_val})


class ReaderFromString(Contract):
    """caller-facing: a reader is a function of the document text (message id = numeric messageID, class per C08)"""
    props = ()
    body_proved = False

    def cases(self, cx):
        s = cx.a['mos_file_contents']
        root = parse_root(s.t)
        ok = A(wellformed(s.t), doc_ok(root))
        return [Case('reader', ret=reader_for_root(cx.E, root, 'string', s), assume=[ok]),
                Case('invalid', exc='MosRoMgrException', assume=[z3.Not(ok)])]


class ReaderFromFile(Contract):
    props = ()
    body_proved = False

    def cases(self, cx):
        s = cx.a['mos_file_path']
        root = parse_root(file_text(s.t))
        ok = A(file_readable(s.t), wellformed(file_text(s.t)), doc_ok(root))
        return [Case('reader', ret=reader_for_root(cx.E, root, 'file', s), assume=[ok]),
                Case('invalid', exc='MosRoMgrException', assume=[file_readable(s.t), z3.Not(ok)]),
                Case('unreadable', exc='OSError', assume=[z3.Not(file_readable(s.t))])]


class ReaderFromS3(Contract):
    props = ()
    body_proved = False

    def cases(self, cx):
        from .classify import s3_content
        b, k = cx.a['bucket_name'], cx.a['mos_file_key']
        root = parse_root(s3_content(b.t, k.t))
        ok = A(wellformed(s3_content(b.t, k.t)), doc_ok(root))
        return [Case('reader', ret=reader_for_root(cx.E, root, 's3', k), assume=[ok]),
                Case('invalid', exc='MosRoMgrException', assume=[z3.Not(ok)])]


@contract('builtin.sorted')
class Sorted(Contract):
    """A-SORT: sorted(xs) is a permutation of xs with no adjacent inversion w.r.t. the elements' real __lt__
    (the real MosReader.__lt__ / MosFile.__lt__ body is executed symbolically for two arbitrary elements)"""
    assumed = True
    props = ()

    def apply(self, E, st, bound):
        xs = bound['xs']
        E.assumed_used.add('A-SORT')
        E.used_contracts.add('builtin.sorted')
        W = E.W
        n = xs.length
        perm = W.fresh_fun('perm', L.I, L.I)
        inv = W.fresh_fun('perm_inv', L.I, L.I)
        j = z3.Int('j!s')
        st.assume(z3.ForAll([j], Imp(A(0 <= j, j < n), A(0 <= perm(j), perm(j) < n, inv(perm(j)) == j)), patterns=[perm(j)]))
        st.assume(z3.ForAll([j], Imp(A(0 <= j, j < n), A(0 <= inv(j), inv(j) < n, perm(inv(j)) == j)), patterns=[inv(j)]))
        # one symbolic evaluation of `b < a` with the real __lt__
        a, b = W.fresh('sa', L.I), W.fresh('sb', L.I)
        ea, eb = xs.elem(a), xs.elem(b)
        lt = ea.cls.lookup('__lt__') if isinstance(ea, SObj) else None
        if lt is None:
            raise Exception('sorted() of elements without __lt__')
        res = E.call_function(lt, [eb, ea], {}, st.fork())
        res = [(s, v) for s, v in res]
        if len(res) != 1 or isinstance(res[0][1], Raised) or not isinstance(res[0][1], SBool):
            from pyvc.symexec import ToolLimit
            raise ToolLimit('__lt__ is not a total, single-path comparison: sorted() may raise')
        inv_ab = res[0][1].t      # elem(b) < elem(a)
        st.assume(z3.ForAll([j], Imp(A(0 <= j, j + 1 < n),
                                     z3.Not(z3.substitute(inv_ab, (a, perm(j)), (b, perm(j + 1))))), patterns=[perm(j)]))
        out = SList(n, lambda k: xs.elem(perm(k)), desc='sorted(%s)' % xs.desc)
        out.perm, out.perm_inv, out.base = perm, inv, xs
        return [(st, out)]


class LtContract(Contract):
    opaque = False
    props = ('C10',)

    def ensures(self, cx, ex):
        return [('C10.ordered_by_numeric_message_id', A(z3.BoolVal(isinstance(ex.value, SBool)),
                                                        ex.value.t == (self.mid(cx, 'self') < self.mid(cx, 'other'))) if isinstance(ex.value, SBool) else z3.BoolVal(False))]

    def raises(self, cx, ex):
        return [('C10.comparison_never_raises[%s]' % ex.value.name(), z3.BoolVal(False))]


@contract('mosromgr.moscollection.MosReader.__lt__')
class ReaderLt(LtContract):
    def entry(self, E):
        st = State(L.Heap(0, 0), z3.IntVal(0))
        a, b = E.W.fresh('ka', L.I), E.W.fresh('kb', L.I)
        return st, {'self': reader_obj(E, a), 'other': reader_obj(E, b)}

    def mid(self, cx, who):
        return cx.st.fields(cx.a[who])['_message_id'].t


@contract('mosromgr.mostypes.MosFile.__lt__')
class MosFileLt(LtContract):
    def entry(self, E):
        W = E.W
        st = State(L.Heap(0, 0), z3.IntVal(0))
        objs = {}
        for who in ('self', 'other'):
            o = SObj(E.repo.cls('MosFile'), st.new_obj(None))
            st.objs[o.oid] = {'_xml': SNode(W.fresh(who + '_root', Node)), '_base_tag': NONE}
            objs[who] = o
        return st, objs

    def requires(self, cx):
        out = []
        for who in ('self', 'other'):
            root = cx.st.fields(cx.a[who])['_xml'].t
            mid = cx.H.find(root, cx.W.lit('messageID'))
            out.append(('Shape.%s_messageID' % who, A(root != null, mid != null, is_int(text(mid)))))
        return out

    def mid(self, cx, who):
        root = cx.st.fields(cx.a[who])['_xml'].t
        return int_of(text(cx.H.find(root, cx.W.lit('messageID'))))


class FromManyContract(Contract):
    """MosCollection.from_strings / from_files: readers are handed to the constructor in ascending numeric
    message id order and are a permutation of the supplied inputs"""
    props = ('C10', 'C18')
    arg = None

    def entry(self, E):
        W = E.W
        st = State(L.Heap(0, 0), z3.IntVal(0))
        n = W.fresh('n_inputs', L.I)
        st.assume(n >= 0)
        f = W.fresh_fun('input', L.I, Str)
        xs = SList(n, lambda k: SStr(f(k)), desc='inputs')
        xs.elemkind = 'str'
        j = z3.Int('j!in')
        st.assume(z3.ForAll([j], f(j) != none_s, patterns=[f(j)]))
        return st, {'cls': SCls(E.repo.cls('MosCollection')), self.arg: xs, 'allow_incomplete': SBool(W.fresh('allow', L.B))}

    def requires(self, cx):
        from .classify import schema_doc
        xs = cx.a[self.arg]
        j = z3.Int('j!fm')
        t = xs.elem(j).t
        if self.arg == 'mos_file_strings':
            ok, root = wellformed(t), parse_root(t)
        else:
            ok, root = A(file_readable(t), wellformed(file_text(t))), parse_root(file_text(t))
        return [('inputs_are_schema_shaped_messages_when_well_formed',
                 z3.ForAll([j], Imp(A(0 <= j, j < xs.length, ok), schema_doc(cx.W, cx.H, root)), patterns=[t]))]

    def ensures(self, cx, ex):
        inits = [a for a in ex.st.addlog if a[0] == 'init']
        if len(inits) != 1:
            return [('C10.constructs_one_collection_from_the_sorted_readers', z3.BoolVal(False))]
        rd = inits[0][1]
        n = cx.a[self.arg].length
        j, j2 = z3.Ints('j!o j2!o')
        mid = lambda jj: ex.st.fields(rd.elem(jj))['_message_id'].t if False else fields_mid(ex.st, rd.elem(jj))
        perm = getattr(rd, 'perm', None)
        out = [('C10.readers_in_ascending_numeric_message_id_order',
                z3.ForAll([j], Imp(A(0 <= j, j + 1 < rd.length), mid(j) <= mid(j + 1))))]
        out.append(('C10+C18.every_supplied_input_becomes_exactly_one_reader',
                    A(rd.length == n, z3.BoolVal(perm is not None),
                      z3.ForAll([j], Imp(A(0 <= j, j < n), A(0 <= rd.perm_inv(j), rd.perm_inv(j) < n, perm(rd.perm_inv(j)) == j))) if perm is not None else z3.BoolVal(False))))
        return out

    def raises(self, cx, ex):
        # an input that cannot be read / classified propagates its error (no collection is built)
        return [('C10.only_input_or_validation_errors[%s]' % ex.value.name(),
                 z3.BoolVal(exc_isinstance(ex.value.cls, 'MosRoMgrException') or ex.value.name() == 'OSError'))]


def fields_mid(st, o):
    f = st.objs[o.oid] if o.oid in st.objs else o.init_fields
    return f['_message_id'].t


@contract('mosromgr.moscollection.MosCollection.from_strings')
class FromStrings(FromManyContract):
    arg = 'mos_file_strings'


@contract('mosromgr.moscollection.MosCollection.from_files')
class FromFiles(FromManyContract):
    arg = 'mos_file_paths'


def _init_cases(self, cx):
    """caller-facing view of MosCollection(...): the reader list handed over is recorded in the ghost log"""
    rd = cx.a['mos_readers']
    me = cx.a['self']

    def eff(st):
        st.addlog.append(('init', rd))
    return [Case('constructed', ret=NONE, effect=eff), Case('rejected', exc='InvalidMosCollection', effect=eff)]


CollectionInit.cases = _init_cases


@contract('mosromgr.moscollection.MosCollection.from_s3')
class FromS3Many(FromManyContract):
    """readers for exactly the keys listed by get_mos_files (its own contract), sorted by numeric message id"""
    arg = None

    def entry(self, E):
        W = E.W
        st = State(L.Heap(0, 0), z3.IntVal(0))
        b, p, sfx = SStr(W.fresh('bucket', Str)), SStr(W.fresh('prefix', Str)), SStr(W.fresh('suffix', Str))
        st.assume(b.t != none_s, sfx.t != none_s)
        return st, {'cls': SCls(E.repo.cls('MosCollection')), 'bucket_name': b, 'prefix': p, 'suffix': sfx,
                    'allow_incomplete': SBool(W.fresh('allow', L.B))}

    def requires(self, cx):
        from .classify import schema_doc, s3_content
        k = z3.Const('k!s3', Str)
        c = s3_content(cx.str('bucket_name'), k)
        return [('stored_objects_are_schema_shaped_messages_when_well_formed',
                 z3.ForAll([k], Imp(wellformed(c), schema_doc(cx.W, cx.H, parse_root(c))), patterns=[c]))]

    def ensures(self, cx, ex):
        inits = [a for a in ex.st.addlog if a[0] == 'init']
        if len(inits) != 1:
            return [('C10.constructs_one_collection_from_the_sorted_readers', z3.BoolVal(False))]
        rd = inits[0][1]
        j = z3.Int('j!o')
        perm = getattr(rd, 'perm', None)
        keys = rd
        for _ in range(5):
            keys = getattr(keys, 'base', None)
            if keys is None or getattr(keys, 'desc', '') == 'get_mos_files':
                break
        listed = keys is not None and getattr(keys, 'desc', '') == 'get_mos_files'
        n = keys.length if listed else z3.IntVal(-1)
        return [('C10.readers_in_ascending_numeric_message_id_order',
                 z3.ForAll([j], Imp(A(0 <= j, j + 1 < rd.length), fields_mid(ex.st, rd.elem(j)) <= fields_mid(ex.st, rd.elem(j + 1))))),
                ('C10+C18.every_listed_key_becomes_exactly_one_reader',
                 A(z3.BoolVal(listed and perm is not None), rd.length == n,
                   z3.ForAll([j], Imp(A(0 <= j, j < n), A(0 <= rd.perm_inv(j), rd.perm_inv(j) < n, perm(rd.perm_inv(j)) == j))) if perm is not None else z3.BoolVal(False)))]
