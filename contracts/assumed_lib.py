"""Assumed (trusted, never proved) contracts of library calls -- listed in every evidence file.
This is the only place where behaviour is postulated rather than derived from /repo's source."""
import z3
from pyvc import logic as L
from pyvc.logic import Node, Str, null, none_s, text, is_msg, born
from pyvc.values import *
from pyvc.contracts import contract, Contract, Case

wellformed = L.mkfun('xml_wellformed', Str, L.B)        # the text is well-formed XML
parse_root = L.mkfun('xml_parse_root', Str, Node)       # root element of the parsed document (a function of the content)
file_text = L.mkfun('file_text', Str, Str)              # content of a readable path
file_readable = L.mkfun('file_readable', Str, L.B)
to_text = L.mkfun('xml_tostring', Node, L.I, Str)       # serialisation of an element at a heap version


@contract('lib.ElementTree.fromstring')
class ETFromString(Contract):
    """A-ET-PARSE: total on well-formed text, ParseError otherwise; str and bytes of the same content parse alike"""
    assumed = True
    props = ()

    def cases(self, cx):
        cx.E.assumed_used.add('A-ET-PARSE')
        t = cx.a['text']
        if not isinstance(t, SStr):
            raise Exception('fromstring of %r' % (t,))
        r = parse_root(t.t)
        return [Case('parsed', ret=SNode(r), assume=[wellformed(t.t), r != null, born(r) == 0]),
                Case('malformed', exc='ParseError', assume=[z3.Not(wellformed(t.t))])]


@contract('lib.ElementTree.parse')
class ETParse(Contract):
    """A-ET-PARSE for files: OSError for unreadable paths, ParseError for malformed content, else the tree of the content"""
    assumed = True
    props = ()

    def cases(self, cx):
        cx.E.assumed_used.add('A-ET-PARSE')
        p = cx.a['source']
        pt = p.t
        r = parse_root(file_text(pt))
        tree = SOpaque(None, 'elementtree')
        tree.root = SNode(r)
        return [Case('parsed', ret=tree, assume=[file_readable(pt), wellformed(file_text(pt)), r != null, born(r) == 0]),
                Case('malformed', exc='ParseError', assume=[file_readable(pt), z3.Not(wellformed(file_text(pt)))]),
                Case('unreadable', exc='OSError', assume=[z3.Not(file_readable(pt))])]


@contract('lib.ElementTree.tostring')
class ETToString(Contract):
    """A-ET-RT (first half): tostring is a function of the tree content; never None"""
    assumed = True
    props = ()

    def cases(self, cx):
        cx.E.assumed_used.add('A-ET-RT')
        e = cx.a['element']
        H = cx.H
        r = SStr(L.mkfun('xml_tostring_%d_%d' % (H.kv, H.tv), Node, Str)(e.t))
        return [Case('text', ret=r, assume=[r.t != none_s])]
