"""Envelope accessors of MosFile (C14, C18, C10) and RunningOrder.inspect / ro_slug (C20, C19)."""
import z3
from pyvc import logic as L
from pyvc.logic import Node, Str, null, none_s, text, is_int, int_of
from pyvc.values import *
from pyvc.state import State
from pyvc.contracts import contract, Contract, Case, LoopSpec, REGISTRY
from .common import A, Imp, ro_inv
from .classify import BASE_TAG
from .accessors import opt_text


class EnvProp(Contract):
    """accessor of a message object of any class: one entry variant per message class"""
    opaque = False
    props = ('C14', 'C18')

    def entry(self, E):
        out = []
        for cname in sorted(set(BASE_TAG)):
            st = State(L.Heap(0, 0), z3.IntVal(0))
            st.locals = {}
            root = E.W.fresh('root', Node)
            (st, o), = [r for r in E.instantiate(E.repo.cls(cname), [SNode(root)], {}, st) if not isinstance(r[1], Raised)][:1]
            out.append((st, {'self': o}))
        return out

    def root(self, cx):
        return cx.st.fields(cx.a['self'])['_xml'].t

    def base(self, cx):
        return cx.H.find(self.root(cx), cx.W.lit(BASE_TAG[cx.a['self'].cls.name]))

    def requires(self, cx):
        return [('document_root', self.root(cx) != null)]


def regenv(qual, ens, rz, props=('C14', 'C18')):
    cls = type('E_' + qual.replace('.', '_'), (EnvProp,), {'ensures': lambda self, cx, ex: ens(self, cx, ex),
                                                            'raises': lambda self, cx, ex: rz(self, cx, ex)})
    inst = cls()
    inst.qualname = qual
    inst.props = props
    REGISTRY[qual] = inst


def _bt_ens(self, cx, ex):
    v = ex.value
    vt = null if isinstance(v, SNone) else v.t
    return [('C14+C18.base_tag_is_the_message_element_of_the_class', vt == self.base(cx))]


def _never(name):
    return lambda self, cx, ex: [('%s_never_raises[%s]' % (name, ex.value.name()), z3.BoolVal(False))]


regenv('mosromgr.mostypes.MosFile.base_tag', _bt_ens, _never('C14.base_tag'))


def _mid_ens(self, cx, ex):
    m = cx.H.find(self.root(cx), cx.W.lit('messageID'))
    v = ex.value
    return [('C14+C10.message_id_is_the_numeric_value_of_the_messageID_tag',
             A(m != null, is_int(text(m)), v.t == int_of(text(m))) if isinstance(v, SInt) else z3.BoolVal(False))]


def _mid_rz(self, cx, ex):
    m = cx.H.find(self.root(cx), cx.W.lit('messageID'))
    return [('C14.message_id_raises_only_without_a_numeric_messageID[%s]' % ex.value.name(), z3.Not(A(m != null, is_int(text(m)))))]


regenv('mosromgr.mostypes.MosFile.message_id', _mid_ens, _mid_rz, props=('C14', 'C18', 'C10'))


def _roid_ens(self, cx, ex):
    b = self.base(cx)
    r = cx.H.find(b, cx.W.lit('roID'))
    v = ex.value
    vt = none_s if isinstance(v, SNone) else v.t
    return [('C14+C18.ro_id_is_the_roID_of_the_message_element', A(b != null, r != null, vt == text(r)))]


def _roid_rz(self, cx, ex):
    b = self.base(cx)
    return [('C14.ro_id_raises_only_without_a_roID[%s]' % ex.value.name(), z3.Or(b == null, cx.H.find(b, cx.W.lit('roID')) == null))]


regenv('mosromgr.mostypes.MosFile.ro_id', _roid_ens, _roid_rz)


# ------------------------------------------------------------------ RunningOrder.inspect (body proof)
class ROInspectLoop(LoopSpec):
    def __init__(self, owner):
        self.o = owner

    def iteration(self, cx, lp):
        root = cx.st.fields(cx.a['self'])['_xml'].t
        base = cx.H.find(root, cx.W.lit('roCreate'))
        s = cx.H.fanode(base, cx.W.lit('story'), lp.k)
        expected = opt_text(cx.H, cx.W, s, 'storyID')
        printed = []
        for entry in lp.st.out:
            if entry[0] == 'print':
                for a in entry[1]:
                    if isinstance(a, SStr):
                        printed.append(a.t == expected)
                    elif isinstance(a, SNone):
                        printed.append(expected == none_s)
        return [('C20.RunningOrder.inspect_mentions_every_story', z3.Or(*printed) if printed else z3.BoolVal(False))]


def install_ro_inspect():
    from . import cli as _cli
    c = REGISTRY['mosromgr.mostypes.RunningOrder.inspect']

    def entry(self, E):
        st = State(L.Heap(0, 0), z3.IntVal(0))
        st.locals = {}
        root = E.W.fresh('root', Node)
        (st, o), = [r for r in E.instantiate(E.repo.cls('RunningOrder'), [SNode(root)], {}, st) if not isinstance(r[1], Raised)][:1]
        return st, {'self': o}

    def requires(self, cx):
        root = cx.st.fields(cx.a['self'])['_xml'].t
        base = cx.H.find(root, cx.W.lit('roCreate'))
        return ro_inv(cx.W, cx.H, root) + [('Shape.roSlug_present', cx.H.find(base, cx.W.lit('roSlug')) != null)]

    def loop(self, ordinal):
        return ROInspectLoop(self)

    def ensures(self, cx, ex):
        return [('C20.RunningOrder.inspect_prints_without_raising', z3.BoolVal(len(ex.st.out) > 0))]

    def raises(self, cx, ex):
        return [('C20+C12+C19.RunningOrder.inspect_never_raises[%s]' % ex.value.name(), z3.BoolVal(False))]
    T = type(c)
    T.entry, T.requires, T.loop, T.ensures, T.raises = entry, requires, loop, ensures, raises
    T.props = ('C20', 'C19')
    T.body_proved = True
    T.opaque = True


install_ro_inspect()


# ------------------------------------------------------------------ MosFile.xml / MosElement.xml / MosElement.__str__
def _xml_ens(self, cx, ex):
    v = ex.value
    return [('C14+C18.xml_is_the_stored_document_root_itself', v.t == self.root(cx) if isinstance(v, SNode) else z3.BoolVal(False)),
            ('C14+C18.reading_xml_changes_no_field_of_the_object',
             A(*[_same_field(ex.st.fields(cx.a['self']).get(k), f) for k, f in cx.st.fields(cx.a['self']).items()]))]


def _same_field(a, b):
    if a is b:
        return z3.BoolVal(True)
    if a is None or type(a) is not type(b):
        return z3.BoolVal(False)
    if hasattr(a, 't') and hasattr(b, 't'):
        return a.t == b.t
    return z3.BoolVal(a is b)


regenv('mosromgr.mostypes.MosFile.xml', _xml_ens, _never('C14.xml'), props=('C14', 'C18', 'C15'))


def install_element_xml():
    from .moselements import regprop

    def ens(self, cx, ex):
        v = ex.value
        s = cx.st.fields(cx.a['self'])['_xml'].t
        return [('C15.element_xml_is_the_element_the_object_was_built_on', v.t == s if isinstance(v, SNode) else z3.BoolVal(False))]

    regprop('mosromgr.moselements.MosElement.xml', ens, props=('C15', 'C17'))

    def str_ens(self, cx, ex):
        v = ex.value
        s = cx.st.fields(cx.a['self'])['_xml'].t
        H = cx.H
        want = L.mkfun('xml_tostring_%d_%d' % (H.kv, H.tv), Node, Str)(s)
        return [('C15.element_str_is_the_serialisation_of_its_own_element', v.t == want if isinstance(v, SStr) else z3.BoolVal(False))]

    regprop('mosromgr.moselements.MosElement.__str__', str_ens, props=('C15',))


install_element_xml()
