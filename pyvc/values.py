"""Symbolic Python values used by the executor."""
import z3
from . import logic as L


class SV:
    pass


class SNone(SV):
    def __repr__(self):
        return 'None'


NONE = SNone()


class SBool(SV):
    def __init__(self, t):
        if isinstance(t, bool):
            t = z3.BoolVal(t)
        self.t = t

    def __repr__(self):
        return 'SBool(%s)' % self.t


class SInt(SV):
    def __init__(self, t):
        if isinstance(t, int):
            t = z3.IntVal(t)
        self.t = t

    def __repr__(self):
        return 'SInt(%s)' % self.t


class SReal(SV):
    """float (modelled as a real) -- may be None when opt is set (Optional[float])"""

    def __init__(self, t, isnone=None):
        if isinstance(t, (int, float)):
            t = z3.RealVal(t)
        self.t = t
        self.isnone = isnone if isnone is not None else z3.BoolVal(False)

    def __repr__(self):
        return 'SReal(%s|none:%s)' % (self.t, self.isnone)


class SStr(SV):
    """str or None (term == none_s)"""

    def __init__(self, t, py=None):
        self.t = t
        self.py = py      # concrete python string when known (literal)

    def __repr__(self):
        return 'SStr(%s)' % (self.py if self.py is not None else self.t)


class SNode(SV):
    """Element or None (term == null)"""

    def __init__(self, t):
        self.t = t

    def __repr__(self):
        return 'SNode(%s)' % self.t


class STuple(SV):
    def __init__(self, items):
        self.items = list(items)

    def __repr__(self):
        return 'STuple(%r)' % (self.items,)


class SObj(SV):
    """instance of a repository class; fields live in State.objs[oid]"""

    def __init__(self, cls, oid, init_fields=None):
        self.cls = cls
        self.oid = oid
        self.init_fields = init_fields   # for objects born inside list templates (materialised on first use)

    def __repr__(self):
        return 'SObj(%s#%s)' % (self.cls.name, self.oid)


class SCls(SV):
    def __init__(self, cls):
        self.cls = cls     # ClassInfo or str (builtin)

    def __repr__(self):
        return 'SCls(%s)' % (self.cls if isinstance(self.cls, str) else self.cls.name)


class SSymCls(SV):
    """a class object known only symbolically (z3 Cls term)"""

    def __init__(self, t):
        self.t = t


class SFunc(SV):
    """function / bound method / classmethod reference"""

    def __init__(self, fi, self_val=None, builtin=None):
        self.fi = fi
        self.self_val = self_val
        self.builtin = builtin

    def __repr__(self):
        return 'SFunc(%s)' % (self.fi.qualname if self.fi else self.builtin)


class SList(SV):
    """list with symbolic length; elem(k) gives the k-th element (python callable
    over a z3 Int term).  `concrete` holds a python list of SV when the list is
    fully known."""

    def __init__(self, length, elem, concrete=None, desc=''):
        if isinstance(length, int):
            length = z3.IntVal(length)
        self.length = length
        self.elem = elem
        self.concrete = concrete
        self.desc = desc

    @staticmethod
    def of(items):
        items = list(items)

        def elem(k, items=items):
            try:
                return items[_conc(k)]
            except (ValueError, IndexError):
                pass
            # symbolic index into a concrete list: if-then-else chain (homogeneous node/str/int lists only)
            for T, dflt in ((SNode, L.null), (SStr, L.none_s), (SInt, z3.IntVal(0))):
                if all(isinstance(x, T) for x in items):
                    t = dflt
                    for i in reversed(range(len(items))):
                        t = z3.If(k == i, items[i].t, t)
                    return T(t)
            raise ValueError('symbolic index into concrete list')
        return SList(len(items), elem, concrete=items)

    def __repr__(self):
        return 'SList(len=%s %s)' % (self.length, self.desc)


def _conc(k):
    if isinstance(k, int):
        return k
    k = z3.simplify(k)
    if z3.is_int_value(k):
        return k.as_long()
    raise ValueError('symbolic index into concrete list')


class SSet(SV):
    """set given by an underlying SList of keys (membership = exists index)"""

    def __init__(self, base, key):
        self.base = base    # SList
        self.key = key      # callable: elem SV -> z3 term (Str)


class SDict(SV):
    """dict: concrete python dict of (python key -> SV) or symbolic (handled ad hoc)"""

    def __init__(self, concrete=None, sym=None):
        self.concrete = concrete
        self.sym = sym


class SOpaque(SV):
    """an opaque python object (datetime, reader payload ...) as an Obj term"""

    def __init__(self, t, kind=''):
        self.t = t
        self.kind = kind

    def __repr__(self):
        return 'SOpaque(%s:%s)' % (self.kind, self.t)


class SExc(SV):
    """exception instance"""

    def __init__(self, cls, msg=None, cause=None, origin=''):
        self.cls = cls          # ClassInfo or builtin name (str)
        self.msg = msg
        self.cause = cause
        self.origin = origin

    def name(self):
        return self.cls if isinstance(self.cls, str) else self.cls.name

    def __repr__(self):
        return 'SExc(%s @%s)' % (self.name(), self.origin)


class SModule(SV):
    def __init__(self, name):
        self.name = name

    def __repr__(self):
        return 'SModule(%s)' % self.name


class SIte(SV):
    """value that is `a` when cond else `b` (only produced by IfExp inside comprehensions)"""

    def __init__(self, cond, a, b):
        self.cond, self.a, self.b = cond, a, b


class Raised:
    """marker result: evaluation raised"""

    def __init__(self, exc):
        self.exc = exc

    def __repr__(self):
        return 'Raised(%r)' % self.exc


BUILTIN_EXC_BASES = {
    'BaseException': None, 'Exception': 'BaseException',
    'AttributeError': 'Exception', 'TypeError': 'Exception', 'ValueError': 'Exception',
    'KeyError': 'LookupError', 'IndexError': 'LookupError', 'LookupError': 'Exception',
    'AssertionError': 'Exception', 'NotImplementedError': 'RuntimeError', 'RuntimeError': 'Exception',
    'OSError': 'Exception', 'FileNotFoundError': 'OSError', 'IsADirectoryError': 'OSError',
    'PermissionError': 'OSError',
    'ParseError': 'SyntaxError', 'SyntaxError': 'Exception',
    'Warning': 'Exception', 'DeprecationWarning': 'Warning', 'UserWarning': 'Warning',
    'UnicodeDecodeError': 'ValueError',
    'SystemExit': 'BaseException',
}


def exc_mro_names(cls):
    """names of all classes in the MRO of an exception class (repo or builtin)"""
    out = []
    if isinstance(cls, str):
        c = cls
        while c is not None:
            out.append(c)
            c = BUILTIN_EXC_BASES.get(c)
        return out
    for c in cls.mro():
        out.append(c.name)
    for b in cls.builtin_bases():
        for n in exc_mro_names(b):
            if n not in out:
                out.append(n)
    return out


def exc_isinstance(exc_cls, handler_name):
    return handler_name in exc_mro_names(exc_cls)
