"""Discharge obligations with z3 (API) and, optionally, cvc5 / z3-4.8 on SMT-LIB."""
import os
import subprocess
import tempfile
import time
import z3
from .logic import dedupe_versions


def build_solver(ob, world_axioms, timeout_ms):
    s = z3.Solver()
    s.set('timeout', timeout_ms)
    s.set('auto_config', False)
    s.set('smt.mbqi', False)
    for f in ob.facts:
        s.add(f)
    for H, clk in dedupe_versions(ob.versions):
        for a in H.axioms(clk):
            s.add(a)
    for a in world_axioms:
        s.add(a)
    return s


def discharge(ob, world_axioms, timeout_ms=20000, want_model=False, retry=True, cover=False):
    """sets ob.result in {'unsat','sat','unknown','trivial'}; unsat = discharged"""
    if ob.result == 'trivial':
        return ob
    t0 = time.time()
    s = build_solver(ob, world_axioms, timeout_ms)
    s.add(z3.Not(ob.goal))
    r = s.check()
    ob.result = str(r)
    if r == z3.unknown and retry:
        ob.reason = s.reason_unknown()
        reasons = [ob.reason]
        # retry with MBQI on (can find models / sometimes proofs)
        s2 = z3.Solver()
        s2.set('timeout', max(2000, timeout_ms // 2))
        for a in s.assertions():
            s2.add(a)
        if cover:
            s2.set('timeout', 900)
        r2 = s2.check()
        if r2 != z3.unknown:
            ob.result = str(r2)
            s, r = s2, r2
        elif cover:
            pass
        else:
            reasons.append(s2.reason_unknown())
            # e-matching is order sensitive: retry with other seeds / a more eager instantiation threshold
            for seed, thr in ((7, 20.0), (23, 100.0), (101, 10.0)):
                s3 = z3.Solver()
                s3.set('timeout', max(2000, timeout_ms // 4))
                s3.set('auto_config', False)
                s3.set('smt.mbqi', False)
                s3.set('smt.random_seed', seed)
                s3.set('smt.qi.eager_threshold', thr)
                for a in reversed(s.assertions()):
                    s3.add(a)
                r3 = s3.check()
                if r3 != z3.unknown:
                    ob.result = str(r3)
                    s, r = s3, r3
                    break
                reasons.append(s3.reason_unknown())
            if r == z3.unknown and ('timeout' in reasons[0] or 'cancel' in reasons[0]):
                # the FIRST (plain e-matching) attempt ran out of time - proofs normally take well under a second of its 20 s -
                # so the machine is overloaded: one patient attempt of each kind before giving up, so that a verdict does not
                # flip because all cores are busy (an MBQI retry that times out is the normal fate of a false goal: no retry)
                for mb in (False, True):
                    s4 = z3.Solver()
                    s4.set('timeout', timeout_ms * 3)
                    if not mb:
                        s4.set('auto_config', False)
                        s4.set('smt.mbqi', False)
                    for a in s.assertions():
                        s4.add(a)
                    r4 = s4.check()
                    if r4 != z3.unknown:
                        ob.result = str(r4)
                        s, r = s4, r4
                        break
    if r == z3.sat and want_model:
        try:
            ob.model = s.model()
        except Exception:
            ob.model = None
    ob.time = time.time() - t0
    return ob


def to_smt2(ob, world_axioms):
    s = build_solver(ob, world_axioms, 1000)
    s.add(z3.Not(ob.goal))
    return '(set-logic ALL)\n' + s.to_smt2()


def run_external(smt2, which, timeout_s=30):
    """which in {'cvc5','z3old'} -> 'unsat'|'sat'|'unknown'"""
    with tempfile.NamedTemporaryFile('w', suffix='.smt2', delete=False, dir=os.environ.get('PYVC_TMP', '/var/tmp')) as f:
        f.write(smt2)
        path = f.name
    try:
        if which == 'cvc5':
            cmd = ['/usr/bin/cvc5', '--tlimit=%d' % (timeout_s * 1000), path]
        else:
            cmd = ['/usr/bin/z3', '-T:%d' % timeout_s, 'smt.mbqi=false', 'auto_config=false', path]
        try:
            p = subprocess.run(cmd, capture_output=True, text=True, timeout=timeout_s + 5)
            out = p.stdout.strip().splitlines()
            r = out[0].strip() if out else 'unknown'
            if r not in ('sat', 'unsat', 'unknown'):
                r = 'unknown'
            return r
        except subprocess.TimeoutExpired:
            return 'unknown'
    finally:
        try:
            os.unlink(path)
        except OSError:
            pass
