"""
./check <Cnn> --quick|--thorough   -- decide one property (DESIGN.md 3.1)

exit 0  every obligation of the property discharged (KNOWN-FINDING lines possible)
exit 1  VIOLATION property=<id> replay=<path>[ no-failing-input-found]
exit 3  checker error (tool crash, solver disagreement, vacuity) -- never a violation
"""
import sys
import os
import json
import time
import hashlib
import importlib
import pkgutil
import multiprocessing as mp
import subprocess

sys.path.insert(0, os.path.dirname(os.path.dirname(os.path.abspath(__file__))))
VERIF = os.path.dirname(os.path.dirname(os.path.abspath(__file__)))


def load_contracts():
    import contracts
    for m in pkgutil.iter_modules(contracts.__path__):
        importlib.import_module('contracts.' + m.name)
    from pyvc.contracts import REGISTRY
    return REGISTRY


def clause_props(name):
    """C01+C03.foo -> {'C01','C03'} ; names without a property tag -> set() (support obligation)"""
    head = name.split('.', 1)[0]
    out = set()
    for part in head.split('+'):
        if len(part) >= 3 and part[0] == 'C' and part[1:].isdigit():
            out.add(part)
    return out


def worker(args):
    qualname, prop, timeout_ms, thorough = args
    import z3
    from pyvc.extract import Repo
    from pyvc.verify import verify_function
    from pyvc.solve import to_smt2, run_external
    load_contracts()
    repo = Repo()
    t0 = time.time()
    res = verify_function(repo, qualname, timeout_ms=timeout_ms)
    out = {'fn': qualname, 'sha': res.sha, 'tool_limit': res.tool_limit, 'error': res.error, 'paths': res.paths,
           'inlined': res.inlined, 'used_contracts': res.used_contracts, 'assumed': res.assumed,
           'time': res.time, 'dead_paths': res.dead_paths, 'obligations': []}
    axioms = res.world.all_global_axioms() if hasattr(res, 'world') else []
    for ob in res.obligations:
        props = clause_props(ob.name) | set(ob.props)
        d = {'name': ob.name, 'kind': ob.kind, 'path': ob.path, 'result': ob.result, 'time': round(ob.time, 4),
             'expect': ob.expect, 'props': sorted(props), 'full': ob.full_name}
        relevant = (not props) or (prop in props)
        d['relevant'] = relevant
        if relevant and ob.result not in ('trivial',) and ob.expect == 'unsat':
            failing = ob.result != 'unsat'
            if thorough or failing:
                smt2 = to_smt2(ob, axioms)
                d['smt2_bytes'] = len(smt2)
                if thorough:
                    d['cvc5'] = run_external(smt2, 'cvc5', 30)
                    d['z3old'] = run_external(smt2, 'z3old', 30)
                if failing:
                    d['smt2'] = smt2 if len(smt2) < 400000 else smt2[:400000]
                    if ob.model is not None:
                        d['model'] = str(ob.model)[:20000]
        out['obligations'].append(d)
    return out


def functions_for(prop, REG):
    """functions whose contract serves the property, plus the opaque helpers they depend on"""
    fns = [q for q, c in REG.items() if prop in getattr(c, 'props', ()) and not getattr(c, 'assumed', False)
           and not getattr(c, 'no_body', False)]
    return sorted(fns)


def main(argv):
    import argparse
    ap = argparse.ArgumentParser()
    ap.add_argument('prop')
    ap.add_argument('--quick', action='store_true')
    ap.add_argument('--thorough', action='store_true')
    ap.add_argument('--replay')
    ap.add_argument('--jobs', type=int, default=min(16, os.cpu_count() or 4))
    a = ap.parse_args(argv)
    from pyvc import decide
    if a.replay:
        return decide.replay_file(a.prop, a.replay)
    tier = 'thorough' if a.thorough else 'quick'
    return decide.run_property(a.prop, tier, a.jobs)


if __name__ == '__main__':
    sys.exit(main(sys.argv[1:]))
