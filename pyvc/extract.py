"""
extract.py -- read the *current* source text of the repository under
verification and index it for the symbolic executor.

Nothing here is cached between runs: every invocation re-parses the files on
disk (MOSROMGR_SRC overrides the location, used by the engine self-test on
scratch copies only).

What extraction drops (stated in DESIGN.md 3.2 and in every evidence file):
docstrings, type annotations, comments.  Everything else is kept as the ast
of the real text.
"""
import ast
import hashlib
import os

SRC_ROOT = os.environ.get('MOSROMGR_SRC', '/repo')
PKG = 'mosromgr'

MODULES = {
    'mosromgr.utils.xml': 'mosromgr/utils/xml.py',
    'mosromgr.utils.s3': 'mosromgr/utils/s3.py',
    'mosromgr.exc': 'mosromgr/exc.py',
    'mosromgr.moselements': 'mosromgr/moselements.py',
    'mosromgr.mostypes': 'mosromgr/mostypes.py',
    'mosromgr.moscollection': 'mosromgr/moscollection.py',
    'mosromgr.cli': 'mosromgr/cli.py',
}


class FunctionInfo:
    def __init__(self, qualname, module, cls, node, src):
        self.qualname = qualname      # mosromgr.mostypes.StoryMove.merge
        self.module = module
        self.cls = cls                # ClassInfo or None
        self.node = node              # ast.FunctionDef
        self.name = node.name
        self.src = src
        self.sha = hashlib.sha256(src.encode()).hexdigest()[:16]
        decos = []
        for d in node.decorator_list:
            if isinstance(d, ast.Name):
                decos.append(d.id)
            elif isinstance(d, ast.Attribute):
                decos.append(d.attr)
            else:
                decos.append(ast.dump(d))
        self.is_property = 'property' in decos
        self.is_classmethod = 'classmethod' in decos
        self.is_staticmethod = 'staticmethod' in decos
        a = node.args
        self.params = [x.arg for x in a.posonlyargs + a.args]
        self.kwonly = [x.arg for x in a.kwonlyargs]
        self.defaults = {}
        pos = a.posonlyargs + a.args
        for p, d in zip(pos[len(pos) - len(a.defaults):], a.defaults):
            self.defaults[p.arg] = d
        for p, d in zip(a.kwonlyargs, a.kw_defaults):
            if d is not None:
                self.defaults[p.arg] = d
        body = list(node.body)
        # drop docstring
        if body and isinstance(body[0], ast.Expr) and isinstance(body[0].value, ast.Constant) \
                and isinstance(body[0].value.value, str):
            body = body[1:]
        self.body = body

    def __repr__(self):
        return f'<fn {self.qualname}>'


class ClassInfo:
    def __init__(self, qualname, module, node):
        self.qualname = qualname
        self.module = module
        self.name = node.name
        self.node = node
        self.base_names = []
        for b in node.bases:
            if isinstance(b, ast.Name):
                self.base_names.append(b.id)
            elif isinstance(b, ast.Attribute):
                self.base_names.append(b.attr)
        self.bases = []       # resolved ClassInfo (or builtin names) later
        self.methods = {}     # name -> FunctionInfo
        self.decorators = [d.id for d in node.decorator_list if isinstance(d, ast.Name)]

    def mro(self):
        out = [self]
        for b in self.bases:
            if isinstance(b, ClassInfo):
                for c in b.mro():
                    if c not in out:
                        out.append(c)
        return out

    def lookup(self, name, after=None):
        """find method *name* in the MRO (optionally strictly after class *after*)"""
        m = self.mro()
        if after is not None:
            m = m[m.index(after) + 1:]
        for c in m:
            if name in c.methods:
                return c.methods[name]
        return None

    def is_subclass_of(self, other):
        return other in self.mro()

    def builtin_bases(self):
        out = []
        for c in self.mro():
            for b in c.bases:
                if not isinstance(b, ClassInfo):
                    out.append(b)
        return out

    def __repr__(self):
        return f'<class {self.qualname}>'


class Repo:
    def __init__(self, root=None):
        self.root = root or SRC_ROOT
        self.functions = {}   # qualname -> FunctionInfo
        self.classes = {}     # qualname -> ClassInfo
        self.by_simple_class = {}  # simple class name -> ClassInfo
        self.module_globals = {}   # module -> {name: ('class', ClassInfo)|('func', FunctionInfo)|('import', str)}
        self.sources = {}
        self.module_ast = {}
        for mod, rel in MODULES.items():
            path = os.path.join(self.root, rel)
            with open(path) as f:
                text = f.read()
            self.sources[mod] = text
            tree = ast.parse(text, filename=path)
            self.module_ast[mod] = tree
            self._index_module(mod, tree, text)
        self._resolve_bases()

    def _index_module(self, mod, tree, text):
        g = self.module_globals.setdefault(mod, {})
        for node in tree.body:
            if isinstance(node, ast.FunctionDef):
                src = ast.get_source_segment(text, node) or ''
                fi = FunctionInfo(f'{mod}.{node.name}', mod, None, node, src)
                self.functions[fi.qualname] = fi
                g[node.name] = ('func', fi)
            elif isinstance(node, ast.ClassDef):
                ci = ClassInfo(f'{mod}.{node.name}', mod, node)
                self.classes[ci.qualname] = ci
                self.by_simple_class[node.name] = ci
                g[node.name] = ('class', ci)
                for sub in node.body:
                    if isinstance(sub, ast.FunctionDef):
                        src = ast.get_source_segment(text, sub) or ''
                        fi = FunctionInfo(f'{ci.qualname}.{sub.name}', mod, ci, sub, src)
                        ci.methods[sub.name] = fi
                        self.functions[fi.qualname] = fi
            elif isinstance(node, ast.ImportFrom):
                for al in node.names:
                    g[al.asname or al.name] = ('import', (node.module or '', node.level, al.name))
            elif isinstance(node, ast.Import):
                for al in node.names:
                    g[(al.asname or al.name).split('.')[0]] = ('import', (al.name, 0, None))
            elif isinstance(node, ast.Assign):
                for t in node.targets:
                    if isinstance(t, ast.Name):
                        g[t.id] = ('assign', node.value)

    def _resolve_bases(self):
        for ci in self.classes.values():
            for b in ci.base_names:
                r = self.resolve_global(ci.module, b)
                if r and r[0] == 'class':
                    ci.bases.append(r[1])
                else:
                    ci.bases.append(b)   # builtin (Exception, Warning, ...)

    def resolve_global(self, module, name, _depth=0):
        g = self.module_globals.get(module, {})
        if name not in g or _depth > 5:
            return None
        kind, val = g[name]
        if kind == 'import':
            frm, level, orig = val
            if level:  # relative import inside the package
                parts = module.split('.')
                base = '.'.join(parts[:len(parts) - level])
                target = f'{base}.{frm}' if frm else base
            else:
                target = frm
            if orig is None:
                return ('module', target)
            if target in self.module_globals:
                r = self.resolve_global(target, orig, _depth + 1)
                if r:
                    return r
            sub = f'{target}.{orig}'
            if sub in self.module_globals:
                return ('module', sub)
            return ('external', f'{target}.{orig}')
        return (kind, val)

    def assigned_once(self, module, name):
        """the module-level name is bound by exactly one statement of the module and by no `global` statement"""
        tree = self.module_ast.get(module)
        if tree is None:
            return False
        n = 0
        for node in ast.walk(tree):
            if isinstance(node, ast.Global) and name in node.names:
                return False
        for node in tree.body:
            for t in ast.walk(node) if isinstance(node, (ast.Assign, ast.AugAssign, ast.AnnAssign, ast.For, ast.With, ast.Import, ast.ImportFrom,
                                                             ast.FunctionDef, ast.ClassDef)) else []:
                if isinstance(t, ast.Name) and isinstance(t.ctx, ast.Store) and t.id == name:
                    n += 1
            if isinstance(node, (ast.FunctionDef, ast.ClassDef)) and node.name == name:
                n += 1
        return n == 1

    def fn(self, qualname):
        return self.functions[qualname]

    def cls(self, name):
        if name in self.classes:
            return self.classes[name]
        return self.by_simple_class[name]


if __name__ == '__main__':
    r = Repo()
    print(len(r.functions), 'functions', len(r.classes), 'classes')
    for q, f in r.functions.items():
        print(q, f.sha, 'prop' if f.is_property else '')
