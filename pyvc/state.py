"""Execution state and obligations."""
import z3
from . import logic as L


class Obligation:
    def __init__(self, fn, name, facts, goal, versions, kind='ensures', path='', expect='unsat', props=()):
        self.fn = fn              # qualname of the function under verification
        self.name = name          # clause name, e.g. C01.block_before_target
        self.facts = list(facts)  # hypotheses (z3 Bool)
        self.goal = goal          # z3 Bool
        self.versions = list(versions)   # [(Heap, clock)]
        self.kind = kind
        self.path = path
        self.expect = expect      # 'unsat' (normal) | 'sat-or-unknown' (cover / vacuity)
        self.props = tuple(props)
        self.result = None
        self.time = 0.0
        self.model = None

    @property
    def full_name(self):
        return '%s :: %s.%s' % (self.fn, self.kind, self.name)


class State:
    def __init__(self, heap, clock):
        self.heap = heap
        self.clock = clock
        self.facts = []          # path condition + assumed facts
        self.versions = [(heap, clock)]
        self.locals = {}
        self.objs = {}           # oid -> {field: SV}
        self.warns = []          # list of warning category names emitted on this path
        self.out = []            # stdout log entries
        self.err = []            # stderr log entries
        self.files = []          # file writes
        self.writes = []         # (kind, target term, heap before)
        self.addlog = []         # ghost call log (C09)
        self.trace = []          # branch decisions (for path naming)
        self.frames = []         # saved locals of callers
        self.cfg = {}            # symbolic configuration booleans (OPT, WERR)
        self.cur_exc = None      # exception being handled (for bare raise)
        self.ghost = {}          # ghost state variables (z3 array terms), see LoopSpec.ghost_vars

    def fork(self):
        s = State.__new__(State)
        s.heap = self.heap
        s.clock = self.clock
        s.facts = list(self.facts)
        s.versions = list(self.versions)
        s.locals = dict(self.locals)
        s.objs = {k: dict(v) for k, v in self.objs.items()}
        s.warns = list(self.warns)
        s.out = list(self.out)
        s.err = list(self.err)
        s.files = list(self.files)
        s.writes = list(self.writes)
        s.addlog = list(self.addlog)
        s.trace = list(self.trace)
        s.frames = list(self.frames)
        s.cfg = self.cfg
        s.cur_exc = self.cur_exc
        s.ghost = dict(self.ghost)
        return s

    def assume(self, *fs):
        for f in fs:
            if f is True:
                continue
            self.facts.append(f)

    def set_heap(self, heap, axioms=()):
        self.heap = heap
        self.versions.append((heap, self.clock))
        self.facts.extend(axioms)

    _oid = [0]

    def new_obj(self, cls):
        State._oid[0] += 1
        oid = State._oid[0]
        self.objs[oid] = {}
        return oid

    def fields(self, o):
        if o.oid not in self.objs:
            if o.init_fields is None:
                raise KeyError('object %r unknown in this state' % (o,))
            self.objs[o.oid] = dict(o.init_fields)
        return self.objs[o.oid]
