import sys, importlib, pkgutil, time
sys.path.insert(0, '/verif')
from pyvc.extract import Repo
from pyvc import verify, logic as L
from pyvc.verify import *
import contracts
for m in pkgutil.iter_modules(contracts.__path__):
    importlib.import_module('contracts.' + m.name)
repo = Repo()
q = sys.argv[1]
c = REGISTRY[q]; fi = repo.functions[q]
W = L.World(); E = Engine(repo, W, REGISTRY, q)
st, bound = c.entry(E); cx = CallCtx(E, st, bound); E.cx = cx
for n, f in c.requires(cx): st.assume(f)
cx.st = st.fork()
t0 = time.time()
import cProfile, pstats
pr = cProfile.Profile(); pr.enable()
try:
    outs = E.call_function(fi, [bound[p] for p in fi.params], {}, st)
except BaseException as e:
    import traceback; traceback.print_exc(); outs = []
pr.disable()
print('paths', len(outs), 'solver calls', E.n_solver_calls, 'time', time.time() - t0, 'dead', E.dead_paths)
for s, v in outs: print(E.pathname(s), v)
pstats.Stats(pr).sort_stats('cumulative').print_stats(14)
