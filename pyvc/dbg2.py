import sys, importlib, pkgutil, time
sys.path.insert(0, '/verif')
from pyvc.extract import Repo
from pyvc.verify import *
from pyvc.solve import *
import contracts
for m in pkgutil.iter_modules(contracts.__path__):
    importlib.import_module('contracts.' + m.name)
repo = Repo()
q, clause = sys.argv[1], sys.argv[2]
r = verify_function(repo, q, only=[clause], timeout_ms=5000)
print(summarize(r))
ax = r.world.all_global_axioms()
for ob in r.obligations:
    if ob.result not in ('unsat', 'trivial') and ob.expect == 'unsat':
        print('FAILED', ob.name, ob.path, ob.result)
        s = build_solver(ob, ax, 5000)
        s.add(z3.Not(ob.goal))
        open('/var/tmp/ob.smt2', 'w').write('(set-logic ALL)\n' + s.to_smt2())
        print('goal:', ob.goal)
        print('n facts', len(ob.facts))
        for f in ob.facts:
            if not z3.is_quantifier(f): print('  fact', f)
        break
