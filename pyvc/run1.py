import sys, importlib, pkgutil
sys.path.insert(0, '/verif')
from pyvc.extract import Repo
from pyvc.verify import verify_function, summarize
import contracts
for m in pkgutil.iter_modules(contracts.__path__):
    importlib.import_module('contracts.' + m.name)
repo = Repo()
for q in sys.argv[1:]:
    r = verify_function(repo, q)
    print(summarize(r, verbose=True))
