"""
contracts.py -- the sidecar contract language (DESIGN.md 3.5).

A contract is a python class registered for a qualified function name.  The
repository is not annotated.  Formulas are z3 terms built over the logical
model of logic.py.

  requires(cx)            -> [(name, formula)]   preconditions (checked at call sites, assumed in the body proof)
  cases(cx)               -> [Case]              what a *caller* may assume (opaque functions)
  ensures(cx, ex)         -> [(name, formula)]   named clauses proved at every normal exit of the body
  raises(cx, ex)          -> [(name, formula)]   named clauses proved at every exceptional exit
  loop(n)                 -> LoopSpec            invariant of the n-th `for` of the function
  entry(E)                -> (state, bound args) symbolic entry state for the body proof

Clause names start with the property id they serve (C01.xyz) or with a support
prefix (inv, pre, safe, RO_Inv ...).
"""
import z3
from . import logic as L
from .logic import Node, Str, null, none_s
from .values import *
from .state import State

REGISTRY = {}


def contract(qualname):
    def deco(cls):
        inst = cls()
        inst.qualname = qualname
        REGISTRY[qualname] = inst
        return cls
    return deco


class Case:
    def __init__(self, name, ret=None, assume=(), exc=None, effect=None):
        self.name = name
        self.ret = ret          # SV for normal return
        self.assume = list(assume)
        self.exc = exc          # class name when the case raises
        self.effect = effect    # callable(state) applying heap/ghost effects


class LoopSpec:
    writes_heap = False
    writes_tags = False

    def invariant(self, cx, lp):
        return []

    def iteration(self, cx, lp):
        return []

    def ghost_vars(self, cx):
        """ghost state variables of this loop: name -> z3 sort (arrays); havocked with the other loop state"""
        return {}

    def ghost_init(self, cx, lp):
        """name -> initial value, assigned before the loop"""
        return {}

    def ghost_update(self, cx, lp):
        """ghost code at the end of iteration lp.k: name -> new value (proper assignments, never assumptions)"""
        return {}


class CallCtx:
    """arguments + entry state of a call (or of the function under proof)"""

    def __init__(self, E, st, bound):
        self.E = E
        self.W = E.W
        self.st = st            # entry state (do not mutate)
        self.H = st.heap        # entry heap
        self.clock = st.clock
        self.a = bound
        self.objs = {k: dict(v) for k, v in st.objs.items()}
        self.data = {}

    def lit(self, s):
        return self.W.lit(s)

    def node(self, name):
        v = self.a[name]
        if isinstance(v, SNone):
            return null
        return v.t

    def str(self, name):
        v = self.a[name]
        if isinstance(v, SNone):
            return none_s
        return v.t

    def field(self, obj, name, st=None):
        st = st or self.st
        return st.objs[obj.oid][name]


class ExitCtx:
    def __init__(self, st, kind, value):
        self.st = st
        self.H = st.heap
        self.kind = kind        # 'return' | 'raise'
        self.value = value      # SV | SExc

    def loop(self, n):
        """LoopCtx of the n-th loop of the function under proof at this exit (None if not reached)"""
        return getattr(self.st, 'locals_callee', self.st.locals).get('$loop%d' % n)


def unify(pattern, actual, E):
    """conditions under which python value *actual* is the value described by
    *pattern*; returns (substitutions, conditions) or None when impossible.
    Fresh constants in the pattern (registered in pattern.fresh) are substituted."""
    subs, conds = [], []

    def go(p, a):
        if isinstance(p, SNone):
            if isinstance(a, SNone):
                return True
            if isinstance(a, SNode):
                conds.append(a.t == null)
                return True
            if isinstance(a, SStr):
                conds.append(a.t == none_s)
                return True
            if isinstance(a, SReal):
                conds.append(a.isnone)
                return True
            return False
        if isinstance(a, SNone):
            if isinstance(p, SNode):
                conds.append(p.t == null)
                return True
            if isinstance(p, SStr):
                conds.append(p.t == none_s)
                return True
            if isinstance(p, SReal):
                conds.append(p.isnone)
                return True
            return False
        if isinstance(p, STuple) and isinstance(a, STuple):
            if len(p.items) != len(a.items):
                return False
            return all(go(x, y) for x, y in zip(p.items, a.items))
        for T in (SNode, SStr, SInt, SBool):
            if isinstance(p, T) and isinstance(a, T):
                if z3.is_const(p.t) and p.t.decl().kind() == z3.Z3_OP_UNINTERPRETED and getattr(p, 'is_fresh', False):
                    subs.append((p.t, a.t))
                else:
                    conds.append(p.t == a.t)
                return True
        if isinstance(p, SReal) and isinstance(a, SReal):
            conds.append(p.isnone == a.isnone)
            conds.append(z3.Or(p.isnone, p.t == a.t))
            return True
        if isinstance(p, SReal) and isinstance(a, SInt):
            conds.append(z3.Not(p.isnone))
            conds.append(p.t == z3.ToReal(a.t))
            return True
        return False

    if not go(pattern, actual):
        return None
    return subs, conds


class Contract:
    opaque = True
    props = ()
    assumed = False     # True for library contracts that are never proved (trusted, listed)

    def requires(self, cx):
        return []

    def cases(self, cx):
        return []

    def ensures(self, cx, ex):
        return None     # None -> default: match one of the cases

    def raises(self, cx, ex):
        return None

    def loop(self, ordinal):
        return None

    def entry(self, E):
        raise NotImplementedError('%s has no entry()' % self.qualname)

    # --- use at a call site ------------------------------------------------
    def apply(self, E, st, bound):
        cx = CallCtx(E, st, bound)
        reqs = self.caller_requires(cx) if hasattr(self, 'caller_requires') else self.requires(cx)
        for name, f in reqs:
            E.oblige(st, 'pre@call(%s).%s' % (self.qualname.split('.', 1)[1] if '.' in self.qualname else self.qualname, name),
                     f, kind='pre')
            st.assume(f)
        out = []
        cases = self.cases(cx)
        for c in cases:
            s2 = st.fork() if len(cases) > 1 else st
            s2.assume(*c.assume)
            if c.effect is not None:
                c.effect(s2)
            if len(cases) > 1 and not E.feasible(s2):
                E.dead_paths += 1
                continue
            s2.trace.append('%s:%s' % (self.qualname.split('.')[-1], c.name))
            if c.exc is not None:
                out.append(E.raise_(s2, c.exc, origin='contract %s:%s' % (self.qualname, c.name)))
            else:
                out.append((s2, c.ret))
        return out

    # --- obligations at the exits of the body proof -----------------------
    def exit_obligations(self, E, cx, ex):
        if ex.kind == 'return':
            cl = self.ensures(cx, ex)
            if cl is not None:
                return cl
            return [('post', self.match_cases(E, cx, ex, want_exc=None))]
        cl = self.raises(cx, ex)
        if cl is not None:
            return cl
        return [('raises(%s)' % ex.value.name(), self.match_cases(E, cx, ex, want_exc=ex.value))]

    def match_cases(self, E, cx, ex, want_exc):
        alts = []
        for c in self.cases(cx):
            if want_exc is None:
                if c.exc is not None:
                    continue
                u = unify(c.ret, ex.value, E)
                if u is None:
                    continue
                subs, conds = u
                body = z3.And(*(list(c.assume) + conds)) if (c.assume or conds) else z3.BoolVal(True)
                if subs:
                    body = z3.substitute(body, *subs)
                alts.append(body)
            else:
                if c.exc is None:
                    continue
                if exc_isinstance(want_exc.cls, c.exc):
                    alts.append(z3.And(*c.assume) if c.assume else z3.BoolVal(True))
        if not alts:
            return z3.BoolVal(False)
        return z3.Or(*alts)


def fresh_node(W, name):
    v = SNode(W.fresh(name, Node))
    v.is_fresh = True
    return v


def fresh_str(W, name):
    v = SStr(W.fresh(name, Str))
    v.is_fresh = True
    return v


def fresh_int(W, name):
    v = SInt(W.fresh(name, L.I))
    v.is_fresh = True
    return v
