"""Bounded cross-check on the real code (runs replay/run_real.py under /venv/bin/python).
Never counted as proof; a failing input found here is a real violation with a replayable input."""
import json
import os
import subprocess

VERIF = os.path.dirname(os.path.dirname(os.path.abspath(__file__)))
REAL_PY = '/venv/bin/python'


def _env():
    env = dict(os.environ)
    src = os.environ.get('MOSROMGR_SRC')
    if src:
        env['PYTHONPATH'] = src + os.pathsep + env.get('PYTHONPATH', '')
    return env


def run(prop, tier, seed):
    script = os.path.join(VERIF, 'replay', 'run_real.py')
    if not os.path.exists(script):
        return {'summary': {'short': 'not built'}, 'failures': []}
    p = subprocess.run([REAL_PY, script, 'search', prop, tier, str(seed)], capture_output=True, text=True, env=_env(),
                       cwd=VERIF)
    if p.returncode != 0:
        return {'summary': {'short': 'crashed', 'stderr': p.stderr[-2000:]}, 'failures': [], 'crashed': True}
    return json.loads(p.stdout)


def replay(prop, failure):
    script = os.path.join(VERIF, 'replay', 'run_real.py')
    p = subprocess.run([REAL_PY, script, 'replay', prop], input=json.dumps(failure), capture_output=True, text=True,
                       env=_env(), cwd=VERIF)
    return p.returncode == 0
