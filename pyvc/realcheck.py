"""Bounded cross-check on the real code (runs replay/run_real.py under /venv/bin/python).
Never counted as proof; a failing input found here is a real violation with a replayable input."""
import json
import os
import subprocess

VERIF = os.path.dirname(os.path.dirname(os.path.abspath(__file__)))
REAL_PY = '/venv/bin/python'


def _env():
    env = dict(os.environ)
    src = os.environ.get('MOSROMGR_SRC')
    if src:
        env['PYTHONPATH'] = src + os.pathsep + env.get('PYTHONPATH', '')
    return env


def run(prop, tier, seed):
    script = os.path.join(VERIF, 'replay', 'run_real.py')
    if not os.path.exists(script):
        return {'summary': {'short': 'not built'}, 'failures': []}
    p = subprocess.run([REAL_PY, script, 'search', prop, tier, str(seed)], capture_output=True, text=True, env=_env(),
                       cwd=VERIF)
    if p.returncode != 0:
        # the oracle drives the public API only: an uncaught exception there is abnormal library behaviour on some input
        last = (p.stderr.strip().splitlines() or ['?'])[-1]
        return {'summary': {'short': 'bounded oracle aborted: %s' % last[:200], 'stderr': p.stderr[-3000:]}, 'crashed': True,
                'failures': [{'property': prop, 'fn': None, 'what': 'the bounded real-code oracle aborted with an uncaught exception: %s' % last[:300],
                              'stderr': p.stderr[-3000:], 'input_sha': 'oracle-abort', 'oracle_abort': True}]}
    return json.loads(p.stdout)


def replay(prop, failure):
    if failure.get('oracle_abort'):
        r = run(prop, 'quick', 0)
        return not r.get('crashed')
    script = os.path.join(VERIF, 'replay', 'run_real.py')
    p = subprocess.run([REAL_PY, script, 'replay', prop], input=json.dumps(failure), capture_output=True, text=True,
                       env=_env(), cwd=VERIF)
    return p.returncode == 0
