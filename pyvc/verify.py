"""Verify one function against its contract: symbolic execution + obligations."""
import time
import traceback
import z3
from . import logic as L
from .extract import Repo
from .state import State, Obligation
from .symexec import Executor, ToolLimit, FnCtx
from .symexpr import ExprMixin
from .symcall import CallMixin
from . import symexpr, symcall
from .contracts import REGISTRY, CallCtx, ExitCtx
from .values import *
from .solve import discharge

symexpr.set_toollimit(ToolLimit)
symcall.set_toollimit(ToolLimit)


class Engine(ExprMixin, CallMixin, Executor):
    pass


class FnResult:
    def __init__(self, qualname):
        self.qualname = qualname
        self.obligations = []
        self.tool_limit = None
        self.error = None
        self.paths = 0
        self.exits = []
        self.inlined = []
        self.used_contracts = []
        self.assumed = []
        self.time = 0.0
        self.sha = None
        self.dead_paths = 0


def verify_function(repo, qualname, timeout_ms=20000, cfg_symbols=(), want_model=True, only=None):
    """returns FnResult; every obligation carries result in unsat/sat/unknown/trivial"""
    t0 = time.time()
    res = FnResult(qualname)
    c = REGISTRY.get(qualname)
    fi = repo.functions.get(qualname)
    if fi is None:
        res.tool_limit = 'binding failure: no function %s in the current source' % qualname
        return res
    res.sha = fi.sha
    if c is None:
        res.tool_limit = 'binding failure: no contract for %s' % qualname
        return res
    W = L.World()
    cfg = {}
    for name in getattr(c, 'config', ()):
        cfg[name] = z3.Bool(name)
    E = Engine(repo, W, REGISTRY, qualname, cfg=cfg)
    try:
        ent = c.entry(E)
        variants = ent if isinstance(ent, list) else [ent]
        for vi, (st, bound) in enumerate(variants):
            if len(variants) > 1:
                st.trace.append('variant%d' % vi)
            st.cfg = cfg
            cx = CallCtx(E, st, bound)
            E.cx = cx
            for name, f in c.requires(cx):
                st.assume(f)
            # definitional axioms of the contract's own spec functions (fresh symbols, primitive recursion)
            for f in getattr(c, 'vocabulary', lambda cx: [])(cx):
                st.assume(f)
            cx.st = st.fork()
            cx.objs = {k: dict(v) for k, v in st.objs.items()}
            # vacuity guard: the precondition must not be refutable
            E.obligations.append(Obligation(qualname, 'pre_satisfiable', st.facts, z3.BoolVal(False), st.versions,
                                            kind='cover', expect='not-unsat-strong'))
            args = [bound[p] for p in fi.params]
            kws = {k: bound[k] for k in fi.kwonly if k in bound}
            E.depth = 0
            outcomes = E.call_function(fi, args, kws, st)
            res.paths += len(outcomes)
            for s, v in outcomes:
                if isinstance(v, Raised):
                    ex = ExitCtx(s, 'raise', v.exc)
                    kind = 'raises'
                else:
                    ex = ExitCtx(s, 'return', v)
                    kind = 'ensures'
                res.exits.append((kind, E.pathname(s), repr(v)))
                for name, f in c.exit_obligations(E, cx, ex):
                    E.oblige(s, name, f, kind=kind)
                # vacuity guard per exit
                E.obligations.append(Obligation(qualname, 'exit_reachable[%s]' % E.pathname(s), s.facts, z3.BoolVal(False),
                                                s.versions, kind='cover', path=E.pathname(s), expect='not-unsat'))
    except ToolLimit as e:
        res.tool_limit = str(e)
        res.time = time.time() - t0
        return res
    except Exception as e:
        # an exception inside the engine on (possibly edited) source is a construct the engine cannot handle:
        # report it as a tool limit (the bounded real-code check stands in), keep the traceback for the evidence
        res.tool_limit = 'engine exception (unsupported construct?): %s: %s' % (type(e).__name__, str(e)[:200])
        res.error_trace = traceback.format_exc()
        res.time = time.time() - t0
        return res
    res.inlined = sorted(E.inlined)
    res.used_contracts = sorted(E.used_contracts)
    res.assumed = sorted(E.assumed_used)
    res.dead_paths = E.dead_paths
    axioms = W.all_global_axioms()
    failed_per_clause = {}
    for ob in E.obligations:
        if only and not any(o in ob.name for o in only):
            continue
        ckey = (ob.kind, ob.name)
        if ob.expect == 'unsat' and failed_per_clause.get(ckey, 0) >= 4 and ob.result != 'trivial':
            # the clause already failed on four paths of this function: the function is not verified whatever the rest says;
            # do not burn the solver budget on every remaining path (they stay undischarged, never counted as proved)
            ob.result = 'unknown'
            ob.reason = 'not attempted: the same clause already failed on 4 paths of this function'
            ob.time = 0.0
            res.obligations.append(ob)
            continue
        nfailed = sum(failed_per_clause.values())
        if ob.expect == 'unsat' and nfailed >= 16 and ob.result != 'trivial':
            # the function already has 16 undischarged obligations: it is not verified; the remaining ones are not attempted
            ob.result = 'unknown'
            ob.reason = 'not attempted: the function already has 16 undischarged obligations'
            ob.time = 0.0
            res.obligations.append(ob)
            continue
        if ob.expect == 'not-unsat-strong':
            # vacuity guard that must also withstand MBQI (a refutation found only with MBQI once hid a vacuous loop proof)
            discharge(ob, axioms, timeout_ms=2000, want_model=False, retry=True, cover=True)
            ob.expect = 'not-unsat'
        elif ob.expect == 'not-unsat':
            discharge(ob, axioms, timeout_ms=min(timeout_ms, 3000), want_model=False, retry=False)
        else:
            # after a few failures in the same function the patient retries are dropped (first attempt + MBQI only matter for a
            # function that is already not verified); on a tree where everything verifies this never triggers
            discharge(ob, axioms, timeout_ms=timeout_ms if nfailed < 6 else min(timeout_ms, 5000), want_model=want_model, retry=nfailed < 6)
            if ob.result not in ('unsat', 'trivial'):
                failed_per_clause[ckey] = failed_per_clause.get(ckey, 0) + 1
        res.obligations.append(ob)
    res.time = time.time() - t0
    res.world = W
    return res


def summarize(res, verbose=False):
    lines = []
    if res.tool_limit:
        lines.append('TOOL-LIMIT %s: %s' % (res.qualname, res.tool_limit))
    if res.error:
        lines.append('ENGINE-ERROR %s:\n%s' % (res.qualname, res.error))
    agg = {}
    for ob in res.obligations:
        key = '%s.%s' % (ob.kind, ob.name)
        ok = (ob.result in ('unsat', 'trivial')) if ob.expect == 'unsat' else (ob.result != 'unsat')
        a = agg.setdefault(key, [0, 0, 0.0, []])
        a[0] += 1
        a[1] += 1 if ok else 0
        a[2] += ob.time
        if not ok:
            a[3].append((ob.result, ob.path))
    for key, (n, ok, t, bad) in agg.items():
        if bad or verbose:
            lines.append('  %-70s %d/%d %.2fs %s' % (key, ok, n, t, bad[:3] if bad else ''))
    lines.append('%s: %d obligations, %d paths, %.1fs' % (res.qualname, len(res.obligations), res.paths, res.time))
    return '\n'.join(lines)
