"""run all functions of a property serially in-process (debug helper): python3-vt -m pyvc.runprop C20"""
import sys, importlib, pkgutil
sys.path.insert(0, '/verif')
from pyvc.extract import Repo
from pyvc.verify import verify_function, summarize
from pyvc.main import load_contracts, functions_for
import re
REG = load_contracts()
repo = Repo()
for q in functions_for(sys.argv[1], REG):
    if len(sys.argv) > 2 and not any(a in q for a in sys.argv[2:]):
        continue
    r = verify_function(repo, q)
    for line in summarize(r, verbose=True).splitlines():
        m = re.search(r' (\d+)/(\d+) ', line)
        if m and m.group(1) == m.group(2):
            continue
        print(line[:230])
