"""Expression evaluation for the symbolic executor (mixin)."""
import ast
import z3
from . import logic as L
from .logic import Node, Str, null, none_s
from .values import *


class ToolLimit(Exception):
    pass


def set_toollimit(cls):
    global ToolLimit
    ToolLimit = cls


class ExprMixin:
    # -> list[(state, SV|Raised)]
    def eval(self, e, st, fx):
        m = getattr(self, 'ex_' + type(e).__name__, None)
        if m is None:
            raise ToolLimit('expression %s in %s' % (type(e).__name__, fx.fi.qualname))
        return m(e, st, fx)

    def eval_seq(self, exprs, st, fx):
        """left-to-right evaluation -> [(state, [values])|(state, Raised)]"""
        res = [(st, [])]
        for e in exprs:
            nxt = []
            for s, vals in res:
                if isinstance(vals, Raised):
                    nxt.append((s, vals))
                    continue
                for s2, v in self.eval(e, s, fx):
                    if isinstance(v, Raised):
                        nxt.append((s2, v))
                    else:
                        nxt.append((s2, vals + [v]))
            res = nxt
        return res

    def ex_Constant(self, e, st, fx):
        v = e.value
        if v is None:
            return [(st, NONE)]
        if isinstance(v, bool):
            return [(st, SBool(v))]
        if isinstance(v, int):
            return [(st, SInt(v))]
        if isinstance(v, float):
            return [(st, SReal(v))]
        if isinstance(v, str):
            return [(st, self.lit(v))]
        raise ToolLimit('constant %r' % (v,))

    def ex_Name(self, e, st, fx):
        n = e.id
        if n in st.locals:
            return [(st, st.locals[n])]
        return [(st, self.global_name(n, fx.fi.module))]

    def global_name(self, n, module):
        r = self.repo.resolve_global(module, n)
        if r is not None:
            kind, val = r
            if kind == 'class':
                return SCls(val)
            if kind == 'func':
                return SFunc(val)
            if kind == 'module':
                return SModule(val)
            if kind == 'external':
                if val == 'xml.etree.ElementTree.Element':
                    return SCls('Element')
                if val in ('xml.etree.ElementTree', 'itertools', 'warnings', 'copy', 'logging', 'sys', 'argparse'):
                    return SModule(val)
                return SFunc(None, builtin=val)
            if kind == 'assign' and isinstance(val, ast.Call) and isinstance(val.func, ast.Name) \
                    and val.func.id == 'object' and not val.args:
                r2 = self.repo.resolve_global(module, n)
                return SStr(self.W.sentinel('%s.%s' % (self.defining_module(module, n), n)))
            if kind == 'assign' and isinstance(val, ast.Constant) and self.repo.assigned_once(self.defining_module(module, n), n):
                # module-level named constant (e.g. _STORY_TAG = 'story'): its value
                c = val.value
                if isinstance(c, str):
                    return self.lit(c)
                if isinstance(c, bool):
                    return SBool(c)
                if isinstance(c, int):
                    return SInt(c)
                if c is None:
                    return NONE
            if kind == 'assign':
                # module-level singletons: logger, s3 = S3(), main = CLI()
                return SModule('%s.%s' % (module, n))
        if n in ('len', 'enumerate', 'list', 'tuple', 'type', 'int', 'float', 'sum', 'all', 'any', 'sorted',
                 'print', 'str', 'open', 'super', 'isinstance', 'issubclass', 'bool', 'set', 'dict', 'range'):
            return SFunc(None, builtin=n)
        if n in BUILTIN_EXC_BASES:
            return SCls(n)
        raise ToolLimit('unknown name %s' % n)

    def defining_module(self, module, n, depth=0):
        g = self.repo.module_globals.get(module, {})
        if n in g and g[n][0] == 'import' and depth < 5:
            frm, level, orig = g[n][1]
            if level:
                parts = module.split('.')
                base = '.'.join(parts[:len(parts) - level])
                target = '%s.%s' % (base, frm) if frm else base
            else:
                target = frm
            if target in self.repo.module_globals:
                return self.defining_module(target, orig, depth + 1)
        return module

    def ex_Tuple(self, e, st, fx):
        out = []
        for s, vals in self.eval_seq(e.elts, st, fx):
            out.append((s, vals if isinstance(vals, Raised) else STuple(vals)))
        return out

    def ex_List(self, e, st, fx):
        out = []
        for s, vals in self.eval_seq(e.elts, st, fx):
            out.append((s, vals if isinstance(vals, Raised) else SList.of(vals)))
        return out

    def ex_Dict(self, e, st, fx):
        if len(e.keys) == 0:
            # empty dict {key: Optional[float]} ; the key sort (Node here: story elements) is fixed by the dict's use
            KS = Node
            d = SDict(sym=(z3.K(KS, z3.BoolVal(False)), z3.K(KS, z3.RealVal(0)), z3.K(KS, z3.BoolVal(False))))
            return [(st, d)]
        out = []
        for s, ks in self.eval_seq(e.keys, st, fx):
            if isinstance(ks, Raised):
                out.append((s, ks))
                continue
            for s2, vs in self.eval_seq(e.values, s, fx):
                if isinstance(vs, Raised):
                    out.append((s2, vs))
                    continue
                d = SDict(concrete=list(zip(ks, vs)))
                d.concrete_keys = ks
                out.append((s2, d))
        return out

    def ex_JoinedStr(self, e, st, fx):
        # f-strings: message texts are opaque, except f'{x}ID' (idtag)
        parts = e.values
        if len(parts) == 2 and isinstance(parts[0], ast.FormattedValue) and isinstance(parts[1], ast.Constant) \
                and parts[1].value == 'ID':
            out = []
            for s, v in self.eval(parts[0].value, st, fx):
                if isinstance(v, Raised):
                    out.append((s, v))
                elif isinstance(v, SStr) and v.py is not None:
                    out.append((s, self.lit(v.py + 'ID')))
                elif isinstance(v, SStr):
                    out.append((s, SStr(L.idtag(v.t))))
                else:
                    raise ToolLimit('f-string ID of %r' % (v,))
            return out
        # evaluate interpolated expressions for their effects / exceptions, result opaque
        exprs = [p.value for p in parts if isinstance(p, ast.FormattedValue)]
        out = []
        for s, vals in self.eval_seq(exprs, st, fx):
            if isinstance(vals, Raised):
                out.append((s, vals))
            else:
                sv = SStr(self.W.fresh('fstr', Str))
                sv.parts = vals
                sv.fmt = [p.value if isinstance(p, ast.Constant) else None for p in parts]
                s.assume(sv.t != none_s)
                out.append((s, sv))
        return out

    def ex_IfExp(self, e, st, fx):
        out = []
        for s, c in self.eval_cond(e.test, st, fx):
            if isinstance(c, Raised):
                out.append((s, c))
            elif c:
                out.extend(self.eval(e.body, s, fx))
            else:
                out.extend(self.eval(e.orelse, s, fx))
        return out

    def ex_BoolOp(self, e, st, fx):
        # short-circuit, python value semantics restricted to boolean contexts:
        # result is SBool unless all operands are evaluated concretely
        is_and = isinstance(e.op, ast.And)
        res = [(st, None)]   # None = undecided so far
        final = []
        for i, operand in enumerate(e.values):
            nxt = []
            last = (i == len(e.values) - 1)
            for s, _ in res:
                for s2, v in self.eval(operand, s, fx):
                    if isinstance(v, Raised):
                        final.append((s2, v))
                        continue
                    if last:
                        final.append((s2, v))
                        continue
                    for s3, t in self.truth(s2, v):
                        if isinstance(t, Raised):
                            final.append((s3, t))
                            continue
                        for s4, b in self.branch(s3, t, 'bo%d' % e.lineno):
                            if is_and and not b:
                                final.append((s4, v if not isinstance(v, SBool) else SBool(False)))
                            elif (not is_and) and b:
                                final.append((s4, v if not isinstance(v, SBool) else SBool(True)))
                            else:
                                nxt.append((s4, None))
            res = nxt
        return final

    def ex_UnaryOp(self, e, st, fx):
        out = []
        if isinstance(e.op, ast.Not):
            for s, v in self.eval(e.operand, st, fx):
                if isinstance(v, Raised):
                    out.append((s, v))
                    continue
                for s2, t in self.truth(s, v):
                    if isinstance(t, Raised):
                        out.append((s2, t))
                    elif isinstance(t, bool):
                        out.append((s2, SBool(not t)))
                    else:
                        out.append((s2, SBool(z3.Not(t))))
            return out
        if isinstance(e.op, ast.USub):
            for s, v in self.eval(e.operand, st, fx):
                if isinstance(v, SInt):
                    out.append((s, SInt(-v.t)))
                elif isinstance(v, Raised):
                    out.append((s, v))
                else:
                    raise ToolLimit('unary minus')
            return out
        raise ToolLimit('unary op')

    def ex_BinOp(self, e, st, fx):
        out = []
        for s, vals in self.eval_seq([e.left, e.right], st, fx):
            if isinstance(vals, Raised):
                out.append((s, vals))
                continue
            a, b = vals
            out.extend(self.binop(s, e.op, a, b, e))
        return out

    def binop(self, st, op, a, b, e):
        if isinstance(op, (ast.Add, ast.Sub)):
            sign = 1 if isinstance(op, ast.Add) else -1
            if isinstance(a, SInt) and isinstance(b, SInt):
                return [(st, SInt(a.t + b.t if sign == 1 else a.t - b.t))]
            if isinstance(a, (SInt, SReal)) and isinstance(b, (SInt, SReal)):
                # float arithmetic as reals (A-NUM); None operand -> TypeError
                out = []
                an = a.isnone if isinstance(a, SReal) else z3.BoolVal(False)
                bn = b.isnone if isinstance(b, SReal) else z3.BoolVal(False)
                at = a.t if isinstance(a, SReal) else z3.ToReal(a.t)
                bt = b.t if isinstance(b, SReal) else z3.ToReal(b.t)
                for s2, bad in self.branch(st, z3.Or(an, bn), 'noneop'):
                    if bad:
                        out.append(self.raise_(s2, 'TypeError', origin='arithmetic on None L%d' % e.lineno))
                    else:
                        self.assumed_used.add('A-NUM')
                        out.append((s2, SReal(at + bt if sign == 1 else at - bt)))
                return out
            if isinstance(a, SNone) or isinstance(b, SNone):
                return [self.raise_(st, 'TypeError', origin='arithmetic on None L%d' % e.lineno)]
            if isinstance(a, SStr) and isinstance(b, SStr) and sign == 1:
                if a.py is not None and b.py is not None:
                    return [(st, self.lit(a.py + b.py))]
                if b.py == 'ID':
                    return [(st, SStr(L.idtag(a.t)))]       # child_tag + 'ID', the same as f'{child_tag}ID'
                r = SStr(self.W.fresh('concat', Str))
                r.parts = [a, b]
                st.assume(r.t != none_s)
                return [(st, r)]
            if isinstance(a, SOpaque) and a.kind == 'datetime' and isinstance(b, SOpaque) and b.kind == 'timedelta':
                self.assumed_used.add('A-DT')
                out = []
                for s2, bad in self.branch(st, getattr(a, 'isnone', z3.BoolVal(False)), 'noneop'):
                    if bad:
                        out.append(self.raise_(s2, 'TypeError', origin='None + timedelta L%d' % e.lineno))
                    else:
                        out.append((s2, SOpaque(a.t + b.t if sign == 1 else a.t - b.t, 'datetime')))
                return out
            if isinstance(a, SObj) and isinstance(op, ast.Add):
                add = a.cls.lookup('__add__')
                if add is not None:
                    return self.call_function(add, [a, b], {}, st)
        if isinstance(op, ast.Mod) and isinstance(a, SStr) and a.py is not None:
            # printf-style formatting of a literal: '%sID' % tag is the ID tag name; every other text is an opaque message string
            args = b.items if isinstance(b, STuple) else [b]
            if a.py == '%sID' and len(args) == 1 and isinstance(args[0], SStr):
                x = args[0]
                return [(st, self.lit(x.py + 'ID') if x.py is not None else SStr(L.idtag(x.t)))]
            if a.py.count('%') - 2 * a.py.count('%%') == len(args):
                r = SStr(self.W.fresh('fmt', Str))
                r.parts = list(args)
                st.assume(r.t != none_s)
                return [(st, r)]
        raise ToolLimit('binop %s on %r, %r' % (type(op).__name__, a, b))

    def ex_Compare(self, e, st, fx):
        if len(e.ops) != 1:
            raise ToolLimit('chained comparison')
        out = []
        for s, vals in self.eval_seq([e.left, e.comparators[0]], st, fx):
            if isinstance(vals, Raised):
                out.append((s, vals))
                continue
            out.extend(self.compare(s, e.ops[0], vals[0], vals[1], e, fx))
        return out

    def sv_eq(self, a, b):
        """python == / identity on supported values -> z3 Bool or bool"""
        if isinstance(a, SNone) and isinstance(b, SNone):
            return True
        if isinstance(a, SNone):
            a, b = b, a
        if isinstance(b, SNone):
            if isinstance(a, SStr):
                return a.t == none_s
            if isinstance(a, SNode):
                return a.t == null
            if isinstance(a, SReal):
                return a.isnone
            if isinstance(a, (SObj, SInt, SBool, STuple, SList, SCls, SFunc, SDict)):
                return False
            if isinstance(a, SOpaque):
                return a.isnone if hasattr(a, 'isnone') else False
        if isinstance(a, SStr) and isinstance(b, SStr):
            if a.py is not None and b.py is not None:
                return a.py == b.py
            return a.t == b.t
        if isinstance(a, SNode) and isinstance(b, SNode):
            return a.t == b.t
        if isinstance(a, SInt) and isinstance(b, SInt):
            return a.t == b.t
        if isinstance(a, SBool) and isinstance(b, SBool):
            return a.t == b.t
        if isinstance(a, SCls) and isinstance(b, SCls):
            return a.cls is b.cls
        if isinstance(a, SSymCls) and isinstance(b, SCls):
            return a.t == self.W.clsconst(b.cls if isinstance(b.cls, str) else b.cls.name)
        if isinstance(a, SCls) and isinstance(b, SSymCls):
            return self.sv_eq(b, a)
        if isinstance(a, SSymCls) and isinstance(b, SSymCls):
            return a.t == b.t
        if isinstance(a, SReal) and isinstance(b, SReal):
            return z3.And(a.isnone == b.isnone, z3.Or(a.isnone, a.t == b.t))
        if isinstance(a, STuple) and isinstance(b, STuple):
            if len(a.items) != len(b.items):
                return False
            cs = [self.sv_eq(x, y) for x, y in zip(a.items, b.items)]
            if any(c is False for c in cs):
                return False
            cs = [c for c in cs if c is not True]
            return z3.And(*cs) if cs else True
        if type(a) is not type(b):
            # different kinds of values are never equal / identical
            if isinstance(a, (SStr, SNode)) and isinstance(b, (SStr, SNode)):
                return z3.And(self.sv_eq(a, NONE), self.sv_eq(b, NONE))
            return False
        raise ToolLimit('equality of %r and %r' % (a, b))

    def compare(self, st, op, a, b, e, fx):
        if isinstance(op, (ast.Eq, ast.Is)):
            c = self.sv_eq(a, b)
            return [(st, SBool(c))]
        if isinstance(op, (ast.NotEq, ast.IsNot)):
            c = self.sv_eq(a, b)
            return [(st, SBool((not c) if isinstance(c, bool) else z3.Not(c)))]
        if isinstance(op, (ast.Lt, ast.Gt, ast.LtE, ast.GtE)):
            f = {ast.Lt: lambda x, y: x < y, ast.Gt: lambda x, y: x > y,
                 ast.LtE: lambda x, y: x <= y, ast.GtE: lambda x, y: x >= y}[type(op)]
            if isinstance(a, SInt) and isinstance(b, SInt):
                return [(st, SBool(f(a.t, b.t)))]
            if isinstance(a, SObj) and isinstance(op, ast.Lt):
                lt = a.cls.lookup('__lt__')
                if lt is not None:
                    return self.call_function(lt, [a, b], {}, st)
            if isinstance(a, SStr) or isinstance(b, SStr):
                raise ToolLimit('ordering comparison on strings (lexical order is not modelled)')
            raise ToolLimit('ordering comparison on %r, %r' % (a, b))
        if isinstance(op, (ast.In, ast.NotIn)):
            neg = isinstance(op, ast.NotIn)
            res = self.contains(st, b, a)
            out = []
            for s, c in res:
                if isinstance(c, Raised):
                    out.append((s, c))
                else:
                    out.append((s, SBool((not c) if isinstance(c, bool) else z3.Not(c)) if neg else SBool(c)))
            return out
        raise ToolLimit('comparison %s' % type(op).__name__)

    def contains(self, st, coll, x):
        if isinstance(coll, STuple) or (isinstance(coll, SList) and coll.concrete is not None):
            items = coll.items if isinstance(coll, STuple) else coll.concrete
            cs = [self.sv_eq(x, it) for it in items]
            if any(c is True for c in cs):
                return [(st, True)]
            cs = [c for c in cs if c is not False]
            return [(st, z3.Or(*cs) if cs else False)]
        if isinstance(coll, SList) and isinstance(x, (SNode, SStr, SNone)):
            xt = x.t if not isinstance(x, SNone) else None
            probe = coll.elem(z3.Int('probe'))
            if xt is None or not isinstance(probe, type(x)):
                raise ToolLimit('membership of %r in %r' % (x, coll))
            b = self.W.fresh('inlist', L.B)
            w = self.W.fresh('wit', L.I)
            k = z3.Int('k!in%d' % self.W.counter)
            st.assume(z3.Implies(b, z3.And(0 <= w, w < coll.length, coll.elem(w).t == xt)))
            st.assume(z3.Implies(z3.Not(b), z3.ForAll([k], z3.Implies(z3.And(0 <= k, k < coll.length), coll.elem(k).t != xt),
                                                      patterns=[coll.elem(k).t])))
            return [(st, b)]
        if isinstance(coll, SSet):
            # membership in {key(e) for e in base}: skolemised both ways (no exists under forall)
            b = self.W.fresh('inset', L.B)
            w = self.W.fresh('wit', L.I)
            k = z3.Int('k!in%d' % self.W.counter)
            xt = x.t
            st.assume(z3.Implies(b, z3.And(0 <= w, w < coll.base.length, coll.key(coll.base.elem(w)) == xt)))
            st.assume(z3.Implies(z3.Not(b), z3.ForAll([k], z3.Implies(z3.And(0 <= k, k < coll.base.length),
                                                                        coll.key(coll.base.elem(k)) != xt),
                                                      patterns=[coll.key(coll.base.elem(k))])))
            r = SBool(b)
            return [(st, b)]
        raise ToolLimit('membership test in %r' % (coll,))

    def ex_Subscript(self, e, st, fx):
        out = []
        for s, o in self.eval(e.value, st, fx):
            if isinstance(o, Raised):
                out.append((s, o))
                continue
            if isinstance(e.slice, ast.Slice):
                out.extend(self.slice(s, o, e.slice, fx))
                continue
            for s2, key in self.eval(e.slice, s, fx):
                if isinstance(key, Raised):
                    out.append((s2, key))
                else:
                    out.extend(self.getitem(s2, o, key, e))
        return out

    def slice(self, st, o, sl, fx):
        if not isinstance(o, SList):
            raise ToolLimit('slice of %r' % (o,))
        def bound(b):
            if b is None:
                return None
            if isinstance(b, ast.Constant) and isinstance(b.value, int):
                return b.value
            if isinstance(b, ast.UnaryOp) and isinstance(b.op, ast.USub) and isinstance(b.operand, ast.Constant):
                return -b.operand.value
            raise ToolLimit('slice bound')
        lo, hi = bound(sl.lower), bound(sl.upper)
        if sl.step is not None:
            raise ToolLimit('slice step')
        n = o.length
        if lo is None and hi is not None and hi < 0:
            m = -hi   # xs[:-m]
            ln = z3.If(n >= m, n - m, 0)
            r = SList(ln, o.elem, desc=o.desc + '[:%d]' % hi)
            r.elemkind = getattr(o, 'elemkind', None)
            return [(st, r)]
        if hi is None and lo is not None and lo >= 0:
            ln = z3.If(n >= lo, n - lo, 0)
            r = SList(ln, lambda k, lo=lo: o.elem(k + lo), desc=o.desc + '[%d:]' % lo)
            return [(st, r)]
        raise ToolLimit('slice form')

    def getitem(self, st, o, key, e):
        if isinstance(o, (SList, STuple)) and isinstance(key, SInt):
            if isinstance(o, STuple):
                o = SList.of(o.items)
            kt = z3.simplify(key.t)
            n = o.length
            if z3.is_int_value(kt):
                kv = kt.as_long()
                if o.concrete is not None:
                    try:
                        return [(st, o.concrete[kv])]
                    except IndexError:
                        return [self.raise_(st, 'IndexError', origin='L%d' % e.lineno)]
                inb = (n > kv) if kv >= 0 else (n >= -kv)
                idx = z3.IntVal(kv) if kv >= 0 else n + kv
            else:
                inb = z3.And(kt < n, kt >= -n)
                idx = z3.If(kt >= 0, kt, n + kt)
            out = []
            for s2, ok in self.branch(st, inb, 'idx%d' % e.lineno):
                if ok:
                    out.append((s2, o.elem(z3.simplify(idx))))
                else:
                    out.append(self.raise_(s2, 'IndexError', origin='L%d' % e.lineno))
            return out
        if isinstance(o, SNode) and isinstance(key, SInt):
            res = []
            for s1, seq in self.as_iterable(st, o):
                if isinstance(seq, Raised):
                    res.append((s1, seq))
                else:
                    res.extend(self.getitem(s1, seq, key, e))
            return res
        if isinstance(o, SDict) and o.concrete is not None:
            out = []
            rest = st
            conds = []
            res = []
            # first matching key (keys of the classification tables are pairwise distinct literals)
            cs = [(self.sv_eq(key, k), v) for k, v in o.concrete]
            for c, v in cs:
                if c is True:
                    return [(st, v)]
            cs = [(c, v) for c, v in cs if c is not False]
            cur = st
            for c, v in cs:
                nxt = None
                for s2, b in self.branch(cur, c, 'key%d' % e.lineno):
                    if b:
                        out.append((s2, v))
                    else:
                        nxt = s2
                if nxt is None:
                    return out
                cur = nxt
            out.append(self.raise_(cur, 'KeyError', origin='L%d' % e.lineno))
            return out
        if isinstance(o, SDictAttrib):
            out = []
            val = L.attrib(o.node, key.t)
            for s2, missing in self.branch(st, val == none_s, 'attr%d' % e.lineno):
                if missing:
                    out.append(self.raise_(s2, 'KeyError', origin='attrib[] L%d' % e.lineno))
                else:
                    out.append((s2, SStr(val)))
            return out
        if isinstance(o, SOpaque) and o.kind == 'commands':
            return [(st, SOpaque(None, 'parser'))]
        if isinstance(o, SOpaque) and o.kind in ('s3page', 's3file', 's3obj'):
            return self.s3_getitem(st, o, key, e)
        raise ToolLimit('subscript of %r' % (o,))

    # ------------------------------------------------------------------ comprehensions
    def ex_ListComp(self, e, st, fx):
        return self.comprehension(e, st, fx, 'list')

    def ex_GeneratorExp(self, e, st, fx):
        return self.comprehension(e, st, fx, 'list')

    def ex_SetComp(self, e, st, fx):
        return self.comprehension(e, st, fx, 'set')

    def comprehension(self, e, st, fx, kind):
        if len(e.generators) != 1:
            raise ToolLimit('nested comprehension')
        g = e.generators[0]
        out = []
        for s, it in self.eval(g.iter, st, fx):
            if isinstance(it, Raised):
                out.append((s, it))
                continue
            for s1, seq in self.as_iterable(s, it):
                if isinstance(seq, Raised):
                    out.append((s1, seq))
                    continue
                out.extend(self.comp_over(e, g, s1, seq, fx, kind))
        return out

    def comp_over(self, e, g, st, seq, fx, kind):
        if seq.concrete is not None:
            # unroll
            st_locals0 = dict(st.locals)
            res = [(st, [])]
            for item in seq.concrete:
                nxt = []
                for s, acc in res:
                    if isinstance(acc, Raised):
                        nxt.append((s, acc))
                        continue
                    saved = dict(s.locals)
                    for s2, c in self.assign(g.target, item, s, fx):
                        if c is not None:
                            nxt.append((s2, Raised(c[1])))
                            continue
                        conds = [(s2, True)]
                        for cond in g.ifs:
                            n2 = []
                            for s3, ok in conds:
                                if ok is True:
                                    n2.extend(self.eval_cond(cond, s3, fx))
                                else:
                                    n2.append((s3, ok))
                            conds = n2
                        for s3, ok in conds:
                            if isinstance(ok, Raised):
                                nxt.append((s3, ok))
                            elif ok:
                                for s4, v in self.eval(e.elt, s3, fx):
                                    nxt.append((s4, v if isinstance(v, Raised) else acc + [v]))
                            else:
                                nxt.append((s3, acc))
                res = nxt
            out = []
            tnames = [nd.id for nd in ast.walk(g.target) if isinstance(nd, ast.Name)]
            for s, acc in res:
                for tn in tnames:
                    if tn in st_locals0:
                        s.locals[tn] = st_locals0[tn]
                    else:
                        s.locals.pop(tn, None)
                if isinstance(acc, Raised):
                    out.append((s, acc))
                elif kind == 'set':
                    raise ToolLimit('concrete set comprehension')
                else:
                    out.append((s, SList.of(acc)))
            return out
        # symbolic: element template over a symbolic index k
        return self.symbolic_comp(e, g, st, seq, fx, kind)

    def symbolic_comp(self, e, g, st, seq, fx, kind):
        """[elt for x in seq (if c)] over a symbolic-length seq.

        The element expression is executed once for a symbolic index k (no heap
        effects allowed).  Path conditions are split into a k-independent part
        (the outer state forks on it) and a k-dependent part (per-element
        condition).  Exceptional element paths become "the comprehension raises
        iff some element raises" (k is the skolem witness).  A filter makes the
        result a monotone sub-list (embedding) of the base list.
        """
        k = self.W.fresh('ck', L.I)
        cnt0 = self.W.counter
        s0 = st.fork()
        s0.assume(k >= 0, k < seq.length)
        nfacts0 = len(s0.facts)
        saved_locals = dict(st.locals)
        results = []
        filter_trivial = True      # the `if` clause is concretely true for every element (e.g. `if mr is not None`)
        for s2, c in self.assign(g.target, seq.elem(k), s0, fx):
            if c is not None:
                results.append((s2, Raised(c[1]), None))
                continue
            conds = [(s2, True)]
            nf_before = len(s2.facts)
            for cond in g.ifs:
                n2 = []
                for s3, ok in conds:
                    if ok is True:
                        n2.extend(self.eval_cond(cond, s3, fx))
                    else:
                        n2.append((s3, ok))
                conds = n2
            if not (len(conds) == 1 and conds[0][1] is True and len(conds[0][0].facts) == nf_before):
                filter_trivial = False
            for s3, ok in conds:
                if isinstance(ok, Raised):
                    results.append((s3, ok, None))
                elif ok:
                    for s4, v in self.eval(e.elt, s3, fx):
                        results.append((s4, v, True))
                else:
                    results.append((s3, None, False))

        def mentions_k(t):
            return _mentions(t, k)

        def subst(term, kk):
            return z3.substitute(term, (k, kk))

        groups = {}     # KI signature -> dict(ki=[facts], normal=[(kd, v, inc, s)], raised=[(kd, exc, s)])
        for s, v, inc in results:
            if not isinstance(v, Raised) and s.heap.key != st.heap.key:
                raise ToolLimit('comprehension element has heap effects')
            extra = s.facts[nfacts0:]
            ki = [f for f in extra if not mentions_k(f)]
            kd = [f for f in extra if mentions_k(f)]
            for f in kd:
                if _has_fresh_after(f, cnt0):
                    raise ToolLimit('comprehension element introduces per-element symbols (opaque call with k-dependent result)')
            sig = tuple(sorted(f.sexpr() for f in ki if not z3.is_quantifier(f) and not _is_definition(f)))
            gr = groups.setdefault(sig, {'ki': [], 'normal': [], 'raised': []})
            for f in ki:
                if not any(f.eq(x) for x in gr['ki']):
                    gr['ki'].append(f)
            if isinstance(v, Raised):
                gr['raised'].append((kd, v, s))
            else:
                gr['normal'].append((kd, v, inc, s))
        out = []
        for sig, gr in groups.items():
            sg = st.fork()
            sg.assume(*gr['ki'])
            if len(groups) > 1:
                sg.trace.append('comp%d' % (len(out)))
                if not self.feasible(sg):
                    continue
            # some element raises
            for kd, v, s in gr['raised']:
                sr = sg.fork()
                sr.assume(k >= 0, k < seq.length, *kd)
                sr.trace.append('comp-raise')
                if self.feasible(sr):
                    out.append((sr, v))
            if not gr['normal']:
                sn = sg.fork()
                sn.assume(seq.length == 0)
                if self.feasible(sn):
                    out.append((sn, SList.of([])))
                continue
            sres = sg
            kq = z3.Int('kq!%d' % self.W.counter)
            self.W.counter += 1
            for kd, v, s in gr['raised']:
                if kd:
                    sres.assume(z3.ForAll([kq], z3.Implies(z3.And(kq >= 0, kq < seq.length),
                                                           z3.Not(z3.And(*[subst(f, kq) for f in kd])))))
                else:
                    sres.assume(seq.length == 0)
            paths = [((z3.And(*kd) if kd else z3.BoolVal(True)), v, inc, s) for kd, v, inc, s in gr['normal']]
            includes = [p for p in paths if p[2]]
            if not includes:
                out.append((sres, SList.of([])))
                continue

            def elem_at(kk, includes=includes, sres=sres):
                if len(includes) == 1:
                    return self.subst_value(includes[0][1], k, kk, includes[0][3], sres)
                v = self.subst_value(includes[-1][1], k, kk, includes[-1][3], sres)
                for cond, val, inc, s in reversed(includes[:-1]):
                    v = SIte(subst(cond, kk), self.subst_value(val, k, kk, s, sres), v)
                return v

            if not g.ifs or filter_trivial:
                lst = SList(seq.length, elem_at, desc='comp over ' + seq.desc)
                lst.base = seq
            else:
                incl = lambda kk, includes=includes: z3.Or(*[subst(c, kk) for c, _, _, _ in includes])
                lenF = self.W.fresh('flen', L.I)
                src = self.W.fresh_fun('fsrc', L.I, L.I)
                dst = self.W.fresh_fun('fdst', L.I, L.I)
                j, j2 = z3.Int('j!f%d' % self.W.counter), z3.Int('j2!f%d' % self.W.counter)
                sres.assume(lenF >= 0, lenF <= seq.length)
                sres.assume(z3.ForAll([j], z3.Implies(z3.And(0 <= j, j < lenF),
                                                     z3.And(0 <= src(j), src(j) < seq.length, incl(src(j)), dst(src(j)) == j)),
                                      patterns=[src(j)]))
                sres.assume(z3.ForAll([j], z3.Implies(z3.And(0 <= j, j < seq.length, incl(j)),
                                                     z3.And(0 <= dst(j), dst(j) < lenF, src(dst(j)) == j)),
                                      patterns=[dst(j)]))
                sres.assume(z3.ForAll([j, j2], z3.Implies(z3.And(0 <= j, j < j2, j2 < lenF), src(j) < src(j2)),
                                      patterns=[z3.MultiPattern(src(j), src(j2))]))
                lst = SList(lenF, lambda kk, elem_at=elem_at, src=src: elem_at(src(kk)), desc='filtered comp over ' + seq.desc)
                lst.base, lst.src, lst.dst, lst.incl, lst.elem_at_base = seq, src, dst, incl, elem_at
            if kind == 'set':
                probe = lst.elem(z3.Int('probe'))
                if not isinstance(probe, SStr):
                    raise ToolLimit('set comprehension of non-strings')
                out.append((sres, SSet(lst, lambda v: v.t)))
            else:
                out.append((sres, lst))
        for s, _ in out:
            s.locals = dict(saved_locals)
        return out

    def subst_value(self, v, k, kk, s_from, s_to):
        """re-instantiate a value computed at symbolic index k for index kk"""
        sub = lambda t: z3.substitute(t, (k, kk))
        if isinstance(v, SNone):
            return v
        if isinstance(v, SStr):
            r = SStr(sub(v.t), py=v.py)
            return r
        if isinstance(v, SNode):
            return SNode(sub(v.t))
        if isinstance(v, SInt):
            return SInt(sub(v.t))
        if isinstance(v, SBool):
            return SBool(sub(v.t))
        if isinstance(v, SReal):
            return SReal(sub(v.t), sub(v.isnone))
        if isinstance(v, STuple):
            return STuple([self.subst_value(x, k, kk, s_from, s_to) for x in v.items])
        if isinstance(v, SObj):
            # copy the object (fields re-instantiated) into the result state
            from .state import State
            State._oid[0] += 1
            fields = s_from.fields(v)
            return SObj(v.cls, State._oid[0],
                        init_fields={f: self.subst_value(x, k, kk, s_from, s_to) for f, x in fields.items()})
        if isinstance(v, SOpaque):
            r = SOpaque(sub(v.t), v.kind)
            if hasattr(v, 'isnone'):
                r.isnone = sub(v.isnone)
            return r
        if isinstance(v, SList):
            if v.concrete is not None:
                return SList.of([self.subst_value(x, k, kk, s_from, s_to) for x in v.concrete])
            r = SList(sub(v.length), lambda q, v=v: self.subst_value(v.elem(q), k, kk, s_from, s_to), desc=v.desc)
            for a in ('base', 'src', 'dst', 'incl', 'elemkind'):
                if hasattr(v, a):
                    setattr(r, a, getattr(v, a))
            return r
        if isinstance(v, SDict) and v.sym is not None:
            r = SDict(sym=tuple(sub(a) for a in v.sym))
            if hasattr(v, 'prefix'):
                r.prefix = v.prefix
            return r
        if isinstance(v, (SCls, SFunc, SModule)):
            return v
        if isinstance(v, SSymCls):
            return SSymCls(sub(v.t))
        if isinstance(v, SIte):
            return SIte(sub(v.cond), self.subst_value(v.a, k, kk, s_from, s_to), self.subst_value(v.b, k, kk, s_from, s_to))
        raise ToolLimit('cannot re-instantiate %r' % (v,))


class SDictAttrib(SV):
    """Element.attrib"""

    def __init__(self, node):
        self.node = node



def _mentions(t, k, _cache=None):
    seen = set()
    stack = [t]
    kid = k.get_id()
    while stack:
        x = stack.pop()
        i = x.get_id()
        if i == kid:
            return True
        if i in seen:
            continue
        seen.add(i)
        if z3.is_quantifier(x):
            stack.append(x.body())
        else:
            stack.extend(x.children())
    return False


def _has_fresh_after(t, cnt0):
    seen = set()
    stack = [t]
    while stack:
        x = stack.pop()
        i = x.get_id()
        if i in seen:
            continue
        seen.add(i)
        if z3.is_quantifier(x):
            stack.append(x.body())
            continue
        if z3.is_app(x):
            nm = x.decl().name()
            if '!' in nm:
                suf = nm.rsplit('!', 1)[1]
                if suf.isdigit() and int(suf) > cnt0 and x.decl().kind() == z3.Z3_OP_UNINTERPRETED:
                    return True
            stack.extend(x.children())
    return False


def _is_definition(f):
    return False
