"""
logic.py -- the logical model of the ElementTree heap (DESIGN.md 3.3).

A child list is modelled relationally: len, at, pos, mem (at/pos mutually
inverse).  Heap components are *versioned*: kv = children version, tv = tag
version.  text/attrib are never written by mosromgr (the executor refuses a
write to them), so they are static functions.

Every write produces a new version together with pointwise (forall-only)
transition axioms.  Quantifiers carry explicit E-matching patterns.
"""
import z3

Node = z3.DeclareSort('Node')
Str = z3.DeclareSort('Str')
Obj = z3.DeclareSort('Obj')     # opaque python objects (readers, datetimes ...)
Cls = z3.DeclareSort('Cls')     # class objects when they must be symbolic
I = z3.IntSort()
B = z3.BoolSort()
R = z3.RealSort()

null = z3.Const('null', Node)
none_s = z3.Const('none_s', Str)


def mkfun(name, *sorts):
    return z3.Function(name, *sorts)


# static (heap independent) functions
text = mkfun('text', Node, Str)
tail = mkfun('tail', Node, Str)
attrib = mkfun('attrib', Node, Str, Str)         # none_s when absent
born = mkfun('born', Node, I)                    # allocation event (0 = existed at entry)
orig = mkfun('orig', Node, Node)                 # original of a deep copy
cp = mkfun('cp', I, Node, Node)                  # cp(event, original)
newnode = mkfun('newnode', I, Node)              # SubElement allocation
is_msg = mkfun('is_msg', Node, B)                # ghost: node belongs to the message tree
idtag = mkfun('idtag', Str, Str)                 # f'{child_tag}ID'
s_strip = mkfun('strip', Str, Str)
s_startswith = mkfun('startswith', Str, Str, B)
s_endswith = mkfun('endswith', Str, Str, B)
s_truthy = mkfun('str_truthy', Str, B)           # bool(s): s is not None and s != ''
is_int = mkfun('str_is_int', Str, B)
int_of = mkfun('int_of', Str, I)
is_float = mkfun('str_is_float', Str, B)
float_of = mkfun('float_of', Str, R)
is_dt = mkfun('str_is_dt', Str, B)
dt_of = mkfun('dt_of', Str, R)                   # datetime as seconds
str_of_int = mkfun('str_of_int', I, Str)
note_path = mkfun('note_path', Node, Node)       # .//studioCommand[@type='note'] (uninterpreted, A-ET-FIND)


class World:
    """Per-task registry: string literals, fresh names, global axioms."""

    def __init__(self):
        self.lits = {}
        self.counter = 0
        self.cls_consts = {}
        self.sentinels = {}

    def lit(self, s):
        if s is None:
            return none_s
        if s not in self.lits:
            self.lits[s] = z3.Const('lit_%d_%s' % (len(self.lits), ''.join(ch if ch.isalnum() else '_' for ch in s)[:24]), Str)
        return self.lits[s]

    def sentinel(self, name):
        """module-level `X = object()` sentinel, compared by identity only"""
        if name not in self.sentinels:
            self.sentinels[name] = z3.Const('sentinel_' + name.replace('.', '_'), Str)
        return self.sentinels[name]

    def clsconst(self, name):
        if name not in self.cls_consts:
            self.cls_consts[name] = z3.Const('cls_' + name, Cls)
        return self.cls_consts[name]

    def fresh(self, name, sort):
        self.counter += 1
        return z3.Const('%s!%d' % (name, self.counter), sort)

    def fresh_fun(self, name, *sorts):
        self.counter += 1
        return z3.Function('%s!%d' % (name, self.counter), *sorts)

    def global_axioms(self):
        ax = []
        base = list(self.lits.items())
        idl = [(t, self.lit(s + 'ID')) for s, t in base if not s.endswith('ID')]
        ls = list(self.lits.items())
        terms = [t for _, t in ls] + [none_s] + list(self.sentinels.values())
        if len(terms) > 1:
            ax.append(z3.Distinct(*terms))
        # concrete facts about literals (computed with CPython)
        for t, t2 in idl:
            ax.append(idtag(t) == t2)
        for s, t in ls:
            ax.append(s_truthy(t) == (s != ''))
            st = s.strip()
            if st in self.lits:
                ax.append(s_strip(t) == self.lits[st])
        ax.append(z3.Not(s_truthy(none_s)))
        ax.append(z3.Not(is_int(none_s)))
        ax.append(z3.Not(is_float(none_s)))
        ax.append(z3.Not(is_dt(none_s)))
        cs = list(self.cls_consts.values())
        if len(cs) > 1:
            ax.append(z3.Distinct(*cs))
        # copies / allocation (static part)
        e = z3.Int('e!g')
        u = z3.Const('u!g', Node)
        k = z3.Const('k!g', Str)
        ax.append(z3.ForAll([e, u], z3.Implies(z3.And(u != null, e >= 1),
                                               z3.And(born(cp(e, u)) == e, orig(cp(e, u)) == u, cp(e, u) != null,
                                                      z3.Not(is_msg(cp(e, u))),
                                                      text(cp(e, u)) == text(u), tail(cp(e, u)) == tail(u))),
                            patterns=[cp(e, u)]))
        ax.append(z3.ForAll([e, u, k], z3.Implies(z3.And(u != null, e >= 1), attrib(cp(e, u), k) == attrib(u, k)),
                            patterns=[attrib(cp(e, u), k)]))
        ax.append(z3.ForAll([e], cp(e, null) == null, patterns=[cp(e, null)]))
        ax.append(z3.ForAll([e], z3.Implies(e >= 1, z3.And(born(newnode(e)) == e, newnode(e) != null,
                                                            z3.Not(is_msg(newnode(e))))),
                            patterns=[newnode(e)]))
        ax.append(born(null) == 0)
        # message nodes exist at entry
        ax.append(z3.ForAll([u], z3.Implies(is_msg(u), born(u) == 0), patterns=[is_msg(u)]))
        for sv in self.sentinels.values():
            # a sentinel is an object(), never the text of an element
            ax.append(z3.ForAll([u], text(u) != sv, patterns=[text(u)]))
        return ax

    def lit_noreg(self, s):
        # a literal that may not be registered yet: register it (distinctness is
        # recomputed at global_axioms() time by the caller through fixpoint)
        return self.lit(s)

    def all_global_axioms(self):
        return self.global_axioms()


_ver = [0]


def nv():
    _ver[0] += 1
    return _ver[0]


class Heap:
    """Immutable heap snapshot = (children version, tag version)."""

    def __init__(self, kv=0, tv=0):
        self.kv = kv
        self.tv = tv
        k, t = kv, tv
        self.f_len = mkfun('len_%d' % k, Node, I)
        self.f_at = mkfun('at_%d' % k, Node, I, Node)
        self.f_pos = mkfun('pos_%d' % k, Node, Node, I)
        self.f_mem = mkfun('mem_%d' % k, Node, Node, B)
        self.f_depth = mkfun('depth_%d' % k, Node, I)
        self.f_tag = mkfun('tag_%d' % t, Node, Str)
        self.f_find = mkfun('find_%d_%d' % (k, t), Node, Str, Node)
        self.f_falen = mkfun('falen_%d_%d' % (k, t), Node, Str, I)
        self.f_fanode = mkfun('fanode_%d_%d' % (k, t), Node, Str, I, Node)
        self.f_faidx = mkfun('faidx_%d_%d' % (k, t), Node, Str, Node, I)

    key = property(lambda self: (self.kv, self.tv))

    def len(self, p): return self.f_len(p)
    def at(self, p, i): return self.f_at(p, i)
    def pos(self, p, x): return self.f_pos(p, x)
    def mem(self, p, x): return self.f_mem(p, x)
    def tag(self, x): return self.f_tag(x)
    def find(self, p, t): return self.f_find(p, t)
    def falen(self, p, t): return self.f_falen(p, t)
    def fanode(self, p, t, k): return self.f_fanode(p, t, k)
    def faidx(self, p, t, x): return self.f_faidx(p, t, x)

    def before(self, p, x, y):
        return self.pos(p, x) < self.pos(p, y)

    # ---- axioms that hold of every version on its own -------------------
    def axioms(self, clock):
        """wf, find, findall, allocation bound for this version.
        *clock* = number of allocation events so far (z3 Int term)."""
        p, x, y = z3.Consts('p!a x!a y!a', Node)
        i, j = z3.Ints('i!a j!a')
        t = z3.Const('t!a', Str)
        H = self
        ax = []
        ax.append(z3.ForAll([p], H.len(p) >= 0, patterns=[H.len(p)]))
        ax.append(z3.ForAll([p, i], z3.Implies(z3.And(0 <= i, i < H.len(p)),
                                               z3.And(H.mem(p, H.at(p, i)), H.pos(p, H.at(p, i)) == i)),
                            patterns=[H.at(p, i)]))
        ax.append(z3.ForAll([p, x], z3.Implies(H.mem(p, x),
                                               z3.And(0 <= H.pos(p, x), H.pos(p, x) < H.len(p),
                                                      H.at(p, H.pos(p, x)) == x, x != null, p != null, x != p)),
                            patterns=[H.mem(p, x)]))
        # A-TREE: the element graph is acyclic (rank function)
        ax.append(z3.ForAll([p, x], z3.Implies(H.mem(p, x), H.f_depth(x) > H.f_depth(p)), patterns=[H.mem(p, x)]))
        # find = first child with the tag
        ax.append(z3.ForAll([p, t], z3.Implies(H.find(p, t) != null,
                                               z3.And(H.mem(p, H.find(p, t)), H.tag(H.find(p, t)) == t)),
                            patterns=[H.find(p, t)]))
        ax.append(z3.ForAll([p, t, x], z3.Implies(z3.And(H.mem(p, x), H.tag(x) == t),
                                                  z3.And(H.find(p, t) != null,
                                                         H.pos(p, H.find(p, t)) <= H.pos(p, x))),
                            patterns=[z3.MultiPattern(H.mem(p, x), H.find(p, t))]))
        # findall = monotone embedding of the children with the tag
        ax.append(z3.ForAll([p, t], H.falen(p, t) >= 0, patterns=[H.falen(p, t)]))
        ax.append(z3.ForAll([p, t, i], z3.Implies(z3.And(0 <= i, i < H.falen(p, t)),
                                                  z3.And(H.mem(p, H.fanode(p, t, i)),
                                                         H.tag(H.fanode(p, t, i)) == t,
                                                         H.faidx(p, t, H.fanode(p, t, i)) == i)),
                            patterns=[H.fanode(p, t, i)]))
        ax.append(z3.ForAll([p, t, x], z3.Implies(z3.And(H.mem(p, x), H.tag(x) == t),
                                                  z3.And(0 <= H.faidx(p, t, x), H.faidx(p, t, x) < H.falen(p, t),
                                                         H.fanode(p, t, H.faidx(p, t, x)) == x)),
                            patterns=[H.faidx(p, t, x), z3.MultiPattern(H.mem(p, x), H.falen(p, t))]))
        ax.append(z3.ForAll([p, t, x, y], z3.Implies(z3.And(H.mem(p, x), H.mem(p, y), H.tag(x) == t, H.tag(y) == t),
                                                     (H.faidx(p, t, x) < H.faidx(p, t, y)) == (H.pos(p, x) < H.pos(p, y))),
                            patterns=[z3.MultiPattern(H.faidx(p, t, x), H.faidx(p, t, y))]))
        # allocation discipline: nothing from the future is linked in
        ax.append(z3.ForAll([p, x], z3.Implies(H.mem(p, x), z3.And(born(p) <= clock, born(x) <= clock,
                                                                   born(p) >= 0, born(x) >= 0)),
                            patterns=[H.mem(p, x)]))
        return ax

    # ---- transitions ------------------------------------------------------
    def _frame_find(self, H2, cond_unchanged):
        """find/findall of q unchanged where cond_unchanged(q) holds"""
        q, z = z3.Consts('q!f z!f', Node)
        t = z3.Const('t!f', Str)
        k = z3.Int('k!f')
        H = self
        c = cond_unchanged(q)
        return [
            z3.ForAll([q, t], z3.Implies(c, H2.find(q, t) == H.find(q, t)), patterns=[H2.find(q, t)]),
            z3.ForAll([q, t], z3.Implies(c, H2.falen(q, t) == H.falen(q, t)), patterns=[H2.falen(q, t)]),
            z3.ForAll([q, t, k], z3.Implies(c, H2.fanode(q, t, k) == H.fanode(q, t, k)), patterns=[H2.fanode(q, t, k)]),
            z3.ForAll([q, t, z], z3.Implies(c, H2.faidx(q, t, z) == H.faidx(q, t, z)), patterns=[H2.faidx(q, t, z)]),
        ]

    def remove(self, P, x):
        """children of P without x (requires mem(P,x), checked by the caller)."""
        H, H2 = self, Heap(nv(), self.tv)
        q, y = z3.Consts('q!r y!r', Node)
        i = z3.Int('i!r')
        px = H.pos(P, x)
        ax = [
            z3.ForAll([q, y], H2.mem(q, y) == z3.If(q == P, z3.And(H.mem(q, y), y != x), H.mem(q, y)),
                      patterns=[H2.mem(q, y), H.mem(q, y)]),
            z3.ForAll([q, y], H2.pos(q, y) == z3.If(z3.And(q == P, H.pos(q, y) > px), H.pos(q, y) - 1, H.pos(q, y)),
                      patterns=[H2.pos(q, y)]),
            z3.ForAll([q], H2.len(q) == z3.If(q == P, H.len(q) - 1, H.len(q)), patterns=[H2.len(q)]),
            z3.ForAll([q, i], H2.at(q, i) == z3.If(z3.And(q == P, i >= px), H.at(q, i + 1), H.at(q, i)),
                      patterns=[H2.at(q, i)]),
        ]
        ax += self._frame_find(H2, lambda q: q != P)
        # derived lemma (first child with tag t): unaffected unless x itself was that child
        t = z3.Const('t!r', Str)
        ax.append(z3.ForAll([t], z3.Implies(H.find(P, t) != x, H2.find(P, t) == H.find(P, t)), patterns=[H2.find(P, t)]))
        ax.append(z3.ForAll([t], z3.Implies(H.tag(x) != t, H2.falen(P, t) == H.falen(P, t)), patterns=[H2.falen(P, t)]))
        ax.append(z3.ForAll([t], z3.Implies(z3.And(H.tag(x) == t, H.mem(P, x)), H2.falen(P, t) == H.falen(P, t) - 1), patterns=[H2.falen(P, t)]))
        return H2, ax

    def insert(self, P, idx, x):
        """children of P with x inserted at clamp(idx) (requires not mem(P,x), idx >= 0)."""
        H, H2 = self, Heap(nv(), self.tv)
        q, y = z3.Consts('q!i y!i', Node)
        i = z3.Int('i!i')
        ci = z3.If(idx > H.len(P), H.len(P), idx)
        ax = [
            z3.ForAll([q, y], H2.mem(q, y) == z3.If(q == P, z3.Or(H.mem(q, y), y == x), H.mem(q, y)),
                      patterns=[H2.mem(q, y), H.mem(q, y)]),
            z3.ForAll([q, y], H2.pos(q, y) == z3.If(q == P,
                                                    z3.If(y == x, ci, z3.If(H.pos(q, y) >= ci, H.pos(q, y) + 1, H.pos(q, y))),
                                                    H.pos(q, y)),
                      patterns=[H2.pos(q, y)]),
            z3.ForAll([q], H2.len(q) == z3.If(q == P, H.len(q) + 1, H.len(q)), patterns=[H2.len(q)]),
            z3.ForAll([q, i], H2.at(q, i) == z3.If(q == P,
                                                   z3.If(i < ci, H.at(q, i), z3.If(i == ci, x, H.at(q, i - 1))),
                                                   H.at(q, i)),
                      patterns=[H2.at(q, i)]),
        ]
        ax += self._frame_find(H2, lambda q: q != P)
        t = z3.Const('t!i2', Str)
        ax.append(z3.ForAll([t], z3.Implies(H.tag(x) != t, H2.find(P, t) == H.find(P, t)), patterns=[H2.find(P, t)]))
        ax.append(z3.ForAll([t], z3.Implies(H.tag(x) != t, H2.falen(P, t) == H.falen(P, t)), patterns=[H2.falen(P, t)]))
        ax.append(z3.ForAll([t], z3.Implies(H.tag(x) == t, H2.falen(P, t) == H.falen(P, t) + 1), patterns=[H2.falen(P, t)]))
        # derived ground lemma: after inserting x, P has a child with x's tag
        ax.append(H2.find(P, H.tag(x)) != null)
        return H2, ax

    def set_tag(self, X, t):
        H, H2 = self, Heap(self.kv, nv())
        y = z3.Const('y!t', Node)
        ax = [z3.ForAll([y], H2.tag(y) == z3.If(y == X, t, H.tag(y)), patterns=[H2.tag(y)])]
        ax += self._frame_find(H2, lambda q: z3.Not(H.mem(q, X)))
        return H2, ax

    def deepcopy_event(self, e):
        """all nodes born at event e are structured copies of their originals"""
        H, H2 = self, Heap(nv(), nv())
        q, z = z3.Consts('q!c z!c', Node)
        i = z3.Int('i!c')
        t = z3.Const('t!c', Str)
        isn = lambda n: born(n) == e
        ax = [
            z3.ForAll([q, z], H2.mem(q, z) == z3.If(isn(q), z3.And(H.mem(orig(q), orig(z)), z == cp(e, orig(z)), q == cp(e, orig(q))), H.mem(q, z)),
                      patterns=[H2.mem(q, z)]),
            z3.ForAll([q, z], H2.pos(q, z) == z3.If(isn(q), H.pos(orig(q), orig(z)), H.pos(q, z)), patterns=[H2.pos(q, z)]),
            z3.ForAll([q], H2.len(q) == z3.If(isn(q), H.len(orig(q)), H.len(q)), patterns=[H2.len(q)]),
            z3.ForAll([q, i], H2.at(q, i) == z3.If(isn(q), cp(e, H.at(orig(q), i)), H.at(q, i)), patterns=[H2.at(q, i)]),
            z3.ForAll([q], H2.tag(q) == z3.If(isn(q), H.tag(orig(q)), H.tag(q)), patterns=[H2.tag(q)]),
            z3.ForAll([q, t], H2.find(q, t) == z3.If(isn(q), cp(e, H.find(orig(q), t)), H.find(q, t)), patterns=[H2.find(q, t)]),
            z3.ForAll([q, t], H2.falen(q, t) == z3.If(isn(q), H.falen(orig(q), t), H.falen(q, t)), patterns=[H2.falen(q, t)]),
            z3.ForAll([q, t, i], H2.fanode(q, t, i) == z3.If(isn(q), cp(e, H.fanode(orig(q), t, i)), H.fanode(q, t, i)),
                      patterns=[H2.fanode(q, t, i)]),
            z3.ForAll([q, t, z], H2.faidx(q, t, z) == z3.If(isn(q), H.faidx(orig(q), t, orig(z)), H.faidx(q, t, z)),
                      patterns=[H2.faidx(q, t, z)]),
        ]
        return H2, ax

    def newnode_event(self, e, t):
        """all nodes born at event e are empty elements with tag t"""
        H, H2 = self, Heap(nv(), nv())
        q, z = z3.Consts('q!n z!n', Node)
        i = z3.Int('i!n')
        tt = z3.Const('t!n', Str)
        isn = lambda n: born(n) == e
        ax = [
            z3.ForAll([q, z], H2.mem(q, z) == z3.If(isn(q), False, H.mem(q, z)), patterns=[H2.mem(q, z)]),
            z3.ForAll([q, z], z3.Implies(z3.Not(isn(q)), H2.pos(q, z) == H.pos(q, z)), patterns=[H2.pos(q, z)]),
            z3.ForAll([q], H2.len(q) == z3.If(isn(q), 0, H.len(q)), patterns=[H2.len(q)]),
            z3.ForAll([q, i], z3.Implies(z3.Not(isn(q)), H2.at(q, i) == H.at(q, i)), patterns=[H2.at(q, i)]),
            z3.ForAll([q], H2.tag(q) == z3.If(isn(q), t, H.tag(q)), patterns=[H2.tag(q)]),
            z3.ForAll([q, tt], H2.find(q, tt) == z3.If(isn(q), null, H.find(q, tt)), patterns=[H2.find(q, tt)]),
            z3.ForAll([q, tt], H2.falen(q, tt) == z3.If(isn(q), 0, H.falen(q, tt)), patterns=[H2.falen(q, tt)]),
            z3.ForAll([q, tt, i], z3.Implies(z3.Not(isn(q)), H2.fanode(q, tt, i) == H.fanode(q, tt, i)),
                      patterns=[H2.fanode(q, tt, i)]),
            z3.ForAll([q, tt, z], z3.Implies(z3.Not(isn(q)), H2.faidx(q, tt, z) == H.faidx(q, tt, z)),
                      patterns=[H2.faidx(q, tt, z)]),
        ]
        return H2, ax


def forall_nodes(n, body, patterns=None, prefix='n'):
    """body(*vars) -> formula ; returns ForAll over n fresh Node variables"""
    forall_nodes.c = getattr(forall_nodes, 'c', 0) + 1
    vs = [z3.Const('%s!%d_%d' % (prefix, forall_nodes.c, k), Node) for k in range(n)]
    b = body(*vs)
    if patterns is not None:
        pats = patterns(*vs)
        return z3.ForAll(vs, b, patterns=pats)
    return z3.ForAll(vs, b)


def forall_ints(n, body, patterns=None, prefix='k'):
    forall_ints.c = getattr(forall_ints, 'c', 0) + 1
    vs = [z3.Int('%s!%d_%d' % (prefix, forall_ints.c, k)) for k in range(n)]
    b = body(*vs)
    if patterns is not None:
        return z3.ForAll(vs, b, patterns=patterns(*vs))
    return z3.ForAll(vs, b)


def dedupe_versions(vs):
    seen = set()
    out = []
    for H, c in vs:
        if H.key not in seen:
            seen.add(H.key)
            out.append((H, c))
    return out
