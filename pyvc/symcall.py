"""Attribute access, calls, builtins and library models (mixin)."""
import ast
import z3
from . import logic as L
from .logic import Node, Str, null, none_s
from .values import *
from .symexpr import SDictAttrib

ToolLimit = None


def set_toollimit(cls):
    global ToolLimit
    ToolLimit = cls


LOGGER_METHODS = ('info', 'warning', 'error', 'debug', 'exception', 'critical')


class CallMixin:
    # ------------------------------------------------------------------ attributes
    def ex_Attribute(self, e, st, fx):
        out = []
        if isinstance(e.value, ast.Call) and isinstance(e.value.func, ast.Name) and e.value.func.id == 'super' \
                and not e.value.args:
            cls = fx.fi.cls
            selfv = st.locals.get(fx.fi.params[0])
            m = (selfv.cls if isinstance(selfv, SObj) else cls).lookup(e.attr, after=cls)
            if m is None:
                raise ToolLimit('super().%s not found' % e.attr)
            if m.is_property:
                return self.call_function(m, [selfv], {}, st)
            return [(st, SFunc(m, self_val=selfv))]
        for s, o in self.eval(e.value, st, fx):
            if isinstance(o, Raised):
                out.append((s, o))
            else:
                out.extend(self.getattr(s, o, e.attr, e, fx))
        return out

    def getattr(self, st, o, attr, e=None, fx=None):
        ln = getattr(e, 'lineno', 0)
        if isinstance(o, SObj):
            fields = st.fields(o)
            if attr in fields:
                return [(st, fields[attr])]
            if attr == '__class__':
                return [(st, SCls(o.cls))]
            m = o.cls.lookup(attr)
            if m is None:
                return [self.raise_(st, 'AttributeError', origin='%s.%s L%d' % (o.cls.name, attr, ln))]
            if m.is_property:
                return self.call_function(m, [o], {}, st)
            if m.is_classmethod:
                return [(st, SFunc(m, self_val=SCls(o.cls)))]
            return [(st, SFunc(m, self_val=o))]
        if isinstance(o, SCls):
            if isinstance(o.cls, str):
                raise ToolLimit('attribute %s of builtin class %s' % (attr, o.cls))
            if attr == '__name__':
                return [(st, self.lit(o.cls.name))]
            m = o.cls.lookup(attr)
            if m is None:
                return [self.raise_(st, 'AttributeError', origin='%s.%s' % (o.cls.name, attr))]
            if m.is_classmethod:
                return [(st, SFunc(m, self_val=o))]
            return [(st, SFunc(m))]
        if isinstance(o, SSymCls):
            if attr == '__name__':
                return [(st, SStr(L.mkfun('cls_name', L.Cls, Str)(o.t)))]
            sf = SFunc(None, builtin='symcls.' + attr)
            sf.symcls = o
            return [(st, sf)]
        if isinstance(o, SNode):
            out = []
            for s2, isnull in self.branch(st, o.t == null, 'isnone'):
                if isnull:
                    out.append(self.raise_(s2, 'AttributeError', origin='None.%s L%d' % (attr, ln)))
                    continue
                H = s2.heap
                if attr == 'tag':
                    out.append((s2, SStr(H.tag(o.t))))
                elif attr == 'text':
                    out.append((s2, SStr(L.text(o.t))))
                elif attr == 'tail':
                    out.append((s2, SStr(L.tail(o.t))))
                elif attr == 'attrib':
                    out.append((s2, SDictAttrib(o.t)))
                elif attr in ('find', 'findall', 'findtext', 'remove', 'insert', 'append', 'get', 'iter'):
                    out.append((s2, SFunc(None, self_val=o, builtin='Element.' + attr)))
                else:
                    raise ToolLimit('Element.%s' % attr)
            return out
        if isinstance(o, SNone):
            return [self.raise_(st, 'AttributeError', origin='None.%s L%d' % (attr, ln))]
        if isinstance(o, SStr):
            if attr in ('strip', 'startswith', 'endswith', 'split', 'replace', 'lower', 'upper', 'lstrip', 'rstrip', 'title', 'casefold',
                        'decode', 'encode', 'format'):
                out = []
                for s2, isnull in self.branch(st, o.t == none_s, 'isnone'):
                    if isnull:
                        out.append(self.raise_(s2, 'AttributeError', origin='None.%s L%d' % (attr, ln)))
                    else:
                        out.append((s2, SFunc(None, self_val=o, builtin='str.' + attr)))
                return out
            raise ToolLimit('str.%s' % attr)
        if isinstance(o, SList) and attr == 'append':
            return [(st, SFunc(None, self_val=o, builtin='list.append'))]
        if isinstance(o, SList) and attr == 'index':
            return [(st, SFunc(None, self_val=o, builtin='list.index'))]
        if isinstance(o, SModule):
            return [(st, self.module_attr(o, attr))]
        if isinstance(o, SExc):
            raise ToolLimit('exception attribute %s' % attr)
        if isinstance(o, SDictAttrib) and attr == 'get':
            return [(st, SFunc(None, self_val=o, builtin='attrib.get'))]
        if isinstance(o, SDict):
            if attr in ('items', 'get', 'keys', 'values'):
                return [(st, SFunc(None, self_val=o, builtin='dict.' + attr))]
        if isinstance(o, SOpaque):
            return self.opaque_attr(st, o, attr, ln)
        if isinstance(o, SFunc) and o.builtin == 'itertools.chain' and attr == 'from_iterable':
            return [(st, SFunc(None, builtin='itertools.chain.from_iterable'))]
        if isinstance(o, SFunc) and attr == '__name__':
            raise ToolLimit('function __name__')
        raise ToolLimit('attribute %s of %r' % (attr, o))

    def opaque_attr(self, st, o, attr, ln):
        if o.kind == 'namespace':
            return [(st, o.fields[attr])]
        if o.kind in ('file', 'stderr', 'parser', 's3client', 's3resource', 'paginator', 's3object', 's3body', 'etree', 'elementtree'):
            return [(st, SFunc(None, self_val=o, builtin='%s.%s' % (o.kind, attr)))]
        raise ToolLimit('attribute %s of opaque %s' % (attr, o.kind))

    def module_attr(self, m, attr):
        name = m.name
        if name == 'xml.etree' and attr == 'ElementTree':
            return SModule('xml.etree.ElementTree')
        if name == 'xml.etree.ElementTree' and attr == 'ParseError':
            return SCls('ParseError')
        # repository modules
        if name in self.repo.module_globals:
            return self.global_name(attr, name)
        full = '%s.%s' % (name, attr)
        if name.endswith('.logger') or name == 'logging':
            return SFunc(None, builtin='logging.' + attr)
        if full in ('sys.stderr',):
            return SOpaque(None, 'stderr')
        if full in ('sys.stdout',):
            return SOpaque(None, 'stdout')
        if name.endswith('.s3') or name == 'mosromgr.utils.s3.s3':
            return SOpaque(None, 's3' + attr)
        return SFunc(None, builtin=full)

    # ------------------------------------------------------------------ calls
    def ex_Call(self, e, st, fx):
        # super()
        if isinstance(e.func, ast.Name) and e.func.id == 'super' and not e.args:
            return [(st, ('super', fx.fi.cls, st.locals.get(fx.fi.params[0])))]
        out = []
        # super().x(...) / super().x
        for s, f in self.eval_callee(e.func, st, fx):
            if isinstance(f, Raised):
                out.append((s, f))
                continue
            # positional args (with *starred)
            argexprs = []
            star = None
            for a in e.args:
                if isinstance(a, ast.Starred):
                    star = a.value
                else:
                    argexprs.append(a)
            kwnames = [k.arg for k in e.keywords]
            if any(k is None for k in kwnames):
                raise ToolLimit('**kwargs call')
            for s2, vals in self.eval_seq(argexprs + [k.value for k in e.keywords] + ([star] if star is not None else []), s, fx):
                if isinstance(vals, Raised):
                    out.append((s2, vals))
                    continue
                pos = vals[:len(argexprs)]
                kws = dict(zip(kwnames, vals[len(argexprs):len(argexprs) + len(kwnames)]))
                if star is not None:
                    sv = vals[-1]
                    if isinstance(sv, STuple):
                        pos = pos + sv.items
                    else:
                        raise ToolLimit('*args of %r' % (sv,))
                if isinstance(f, SFunc) and f.builtin == 'list.append' and isinstance(e.func, ast.Attribute) \
                        and isinstance(e.func.value, ast.Name):
                    f.target_name = e.func.value.id
                out.extend(self.call_value(f, pos, kws, s2, e, fx))
        return out

    def eval_callee(self, f, st, fx):
        if isinstance(f, ast.Attribute) and isinstance(f.value, ast.Call) and isinstance(f.value.func, ast.Name) \
                and f.value.func.id == 'super' and not f.value.args:
            cls = fx.fi.cls
            selfv = st.locals.get(fx.fi.params[0])
            m = (selfv.cls if isinstance(selfv, SObj) else cls).lookup(f.attr, after=cls)
            if m is None:
                if f.attr == '__init__':
                    return [(st, SFunc(None, builtin='object.__init__'))]
                raise ToolLimit('super().%s not found' % f.attr)
            return [(st, SFunc(m, self_val=selfv))]
        return self.eval(f, st, fx)

    def ex_Attribute_super(self, e, st, fx):
        pass

    def call_value(self, f, pos, kws, st, e, fx):
        if isinstance(f, SFunc):
            if f.fi is not None:
                args = ([f.self_val] if f.self_val is not None else []) + pos
                return self.call_function(f.fi, args, kws, st)
            return self.call_builtin(f, pos, kws, st, e, fx)
        if isinstance(f, SCls):
            return self.instantiate(f.cls, pos, kws, st, e)
        if isinstance(f, SSymCls):
            raise ToolLimit('call of symbolic class')
        raise ToolLimit('call of %r' % (f,))

    def instantiate(self, cls, pos, kws, st, e=None):
        if isinstance(cls, str) or any(True for _ in []):
            # builtin exception class
            return [(st, SExc(cls, msg=pos[0] if pos else None, origin='L%d' % getattr(e, 'lineno', 0)))]
        names = exc_mro_names(cls)
        if 'BaseException' in names or 'Exception' in names:
            return [(st, SExc(cls, msg=pos[0] if pos else None, origin='L%d' % getattr(e, 'lineno', 0)))]
        oid = st.new_obj(cls)
        o = SObj(cls, oid)
        init = cls.lookup('__init__')
        if init is None:
            return [(st, o)]
        out = []
        for s, r in self.call_function(init, [o] + pos, kws, st):
            out.append((s, r if isinstance(r, Raised) else o))
        return out

    def bind_args(self, fi, args, kws, st):
        params = list(fi.params)
        if len(args) > len(params):
            raise ToolLimit('too many positional args for %s' % fi.qualname)
        bound = {}
        for p, a in zip(params, args):
            bound[p] = a
        for k, v in kws.items():
            if k not in params and k not in fi.kwonly:
                raise ToolLimit('unexpected kw %s for %s' % (k, fi.qualname))
            bound[k] = v
        missing = [p for p in params + fi.kwonly if p not in bound]
        for p in missing:
            if p in fi.defaults:
                d = fi.defaults[p]
                if isinstance(d, ast.Constant):
                    bound[p] = self.ex_Constant(d, st, None)[0][1]
                elif isinstance(d, ast.Name):
                    bound[p] = self.global_name(d.id, fi.module)
                else:
                    raise ToolLimit('non-constant default')
            else:
                raise ToolLimit('missing argument %s for %s' % (p, fi.qualname))
        return bound

    def call_function(self, fi, args, kws, st):
        from .symexec import FnCtx
        q = fi.qualname
        c = self.contracts.get(q)
        if c is not None and c.opaque and not (q == self.target and self.depth == 0):
            self.used_contracts.add(q)
            bound = self.bind_args(fi, args, kws, st)
            return c.apply(self, st, bound)
        if self.depth >= self.MAX_DEPTH:
            raise ToolLimit('call depth exceeded at %s' % q)
        bound = self.bind_args(fi, args, kws, st)
        if self.depth > 0 or q != self.target:
            self.inlined.add(q)
        caller_locals = st.locals
        st.locals = dict(bound)
        self.depth += 1
        try:
            fx = FnCtx(fi, top=(self.depth == 1 and q == self.target))
            results = self.exec_block(fi.body, st, fx)
        finally:
            self.depth -= 1
        out = []
        for s, ctl in results:
            s.locals_callee = s.locals
            s.locals = dict(caller_locals)
            if ctl is None:
                out.append((s, NONE))
            elif ctl[0] == 'return':
                out.append((s, ctl[1]))
            elif ctl[0] == 'raise':
                out.append((s, Raised(ctl[1])))
            else:
                raise ToolLimit('break/continue escaped function')
        return out

    # ------------------------------------------------------------------ builtins & library models
    def call_builtin(self, f, pos, kws, st, e, fx):
        name = f.builtin
        ln = getattr(e, 'lineno', 0)
        m = getattr(self, 'bi_' + name.replace('.', '_'), None)
        if m is not None:
            return m(f, pos, kws, st, ln)
        if name.startswith('logging.') or name.split('.')[-1] in LOGGER_METHODS and 'logger' in name:
            self.assumed_used.add('A-LOG')
            return [(st, NONE)]
        raise ToolLimit('call of %s' % name)

    def bi_object___init__(self, f, pos, kws, st, ln):
        return [(st, NONE)]

    def bi_len(self, f, pos, kws, st, ln):
        v = pos[0]
        if isinstance(v, SList):
            return [(st, SInt(v.length))]
        if isinstance(v, STuple):
            return [(st, SInt(len(v.items)))]
        if isinstance(v, SNode):
            out = []
            for s2, isnull in self.branch(st, v.t == null, 'isnone'):
                if isnull:
                    out.append(self.raise_(s2, 'TypeError', origin='len(None) L%d' % ln))
                else:
                    self.assumed_used.add('A-ET-LIST')
                    out.append((s2, SInt(s2.heap.len(v.t))))
            return out
        if isinstance(v, SNone):
            return [self.raise_(st, 'TypeError', origin='len(None) L%d' % ln)]
        raise ToolLimit('len of %r' % (v,))

    def bi_list(self, f, pos, kws, st, ln):
        if not pos:
            return [(st, SList.of([]))]
        out = []
        for s, seq in self.as_iterable(st, pos[0]):
            out.append((s, seq))
        return out

    def bi_list_append(self, f, pos, kws, st, ln, e=None):
        old, x = f.self_val, pos[0]
        if old.concrete is not None:
            new = SList.of(old.concrete + [x])
        else:
            if not isinstance(x, (SNode, SStr)):
                raise ToolLimit('append of %r to a symbolic list' % (x,))
            n = old.length
            isn = isinstance(x, SNode)
            g = self.W.fresh_fun('lst', L.I, Node if isn else Str)
            i = z3.Int('i!ap%d' % self.W.counter)
            st.assume(z3.ForAll([i], g(i) == z3.If(i == n, x.t, old.elem(i).t), patterns=[g(i)]))
            new = SList(n + 1, (lambda k, g=g: SNode(g(k))) if isn else (lambda k, g=g: SStr(g(k))), desc=old.desc + '+1')
            new.fun = g
            new.elemkind = 'node' if isn else 'str'
        tgt = getattr(f, 'target_name', None)
        if tgt is None:
            raise ToolLimit('append on a list that is not a local variable')
        st.locals[tgt] = new
        return [(st, NONE)]

    def bi_set(self, f, pos, kws, st, ln):
        if not pos and not kws:
            return [(st, SSet(SList.of([]), lambda v: v.t))]
        raise ToolLimit('set() of %r' % (pos,))

    def bi_bool(self, f, pos, kws, st, ln):
        if not pos:
            return [(st, SBool(False))]
        out = []
        for s2, t in self.truth(st, pos[0], origin='bool() L%d' % ln):
            if isinstance(t, Raised):
                out.append((s2, t))
            else:
                out.append((s2, SBool(t if not isinstance(t, bool) else z3.BoolVal(t))))
        return out

    def bi_list_index(self, f, pos, kws, st, ln):
        """lst.index(x): position of the first element equal to x, ValueError when there is none (elements compared as nodes / strings)"""
        lst, x = f.self_val, pos[0]
        if len(pos) != 1 or kws or not isinstance(x, (SNode, SStr)):
            raise ToolLimit('list.index with these arguments')
        co = getattr(lst, 'children_of', None)
        out = []
        if co is not None and isinstance(x, SNode):
            H, p = co
            for s2, found in self.branch(st, z3.And(x.t != null, H.mem(p, x.t)), 'index'):
                if found:
                    out.append((s2, SInt(H.pos(p, x.t))))
                else:
                    out.append(self.raise_(s2, 'ValueError', origin='list.index L%d' % ln))
            return out
        r = z3.Int('r!idx%d' % self.W.counter)
        j = z3.Int('j!idx%d' % self.W.counter)
        self.W.counter += 1

        def same(k):
            e = lst.elem(k)
            if type(e) is not type(x):
                raise ToolLimit('list.index over a list of %r' % (e,))
            return e.t == x.t
        if lst.concrete is not None:
            n = len(lst.concrete)
            hit = z3.Or(*[same(i) for i in range(n)]) if n else z3.BoolVal(False)
            first = z3.IntVal(0)
            for i in reversed(range(n)):
                first = z3.If(same(i), z3.IntVal(i), first)
            for s2, found in self.branch(st, hit, 'index'):
                out.append((s2, SInt(first)) if found else self.raise_(s2, 'ValueError', origin='list.index L%d' % ln))
            return out
        exists = z3.Exists([j], z3.And(0 <= j, j < lst.length, same(j)))
        for s2, found in self.branch(st, exists, 'index'):
            if found:
                s2.assume(z3.And(0 <= r, r < lst.length, same(r),
                                 z3.ForAll([j], z3.Implies(z3.And(0 <= j, j < r), z3.Not(same(j))))))
                out.append((s2, SInt(r)))
            else:
                out.append(self.raise_(s2, 'ValueError', origin='list.index L%d' % ln))
        return out

    def bi_tuple(self, f, pos, kws, st, ln):
        return self.bi_list(f, pos, kws, st, ln)

    def bi_enumerate(self, f, pos, kws, st, ln):
        start = kws.get('start', pos[1] if len(pos) > 1 else SInt(0))
        out = []
        for s, seq in self.as_iterable(st, pos[0]):
            if isinstance(seq, Raised):
                out.append((s, seq))
                continue
            if isinstance(start, SNone):
                out.append(self.raise_(s, 'TypeError', origin='enumerate(start=None) L%d' % ln))
                continue
            if not isinstance(start, SInt):
                raise ToolLimit('enumerate start %r' % (start,))
            if seq.concrete is not None:
                out.append((s, SList.of([STuple([SInt(start.t + i), it]) for i, it in enumerate(seq.concrete)])))
            else:
                r = SList(seq.length, lambda k, seq=seq, start=start: STuple([SInt(start.t + k), seq.elem(k)]),
                          desc='enumerate(%s)' % seq.desc)
                r.base = seq
                out.append((s, r))
        return out

    def bi_type(self, f, pos, kws, st, ln):
        v = pos[0]
        if isinstance(v, SObj):
            return [(st, SCls(v.cls))]
        if isinstance(v, SNode):
            # type(xml) != Element : an Element for non-null nodes
            return [(st, SCls('Element') if True else None)]
        if isinstance(v, SStr):
            return [(st, SCls('str'))]
        raise ToolLimit('type() of %r' % (v,))

    def bi_int(self, f, pos, kws, st, ln):
        v = pos[0]
        if isinstance(v, SInt):
            return [(st, v)]
        if isinstance(v, SStr):
            self.assumed_used.add('A-NUM')
            out = []
            for s2, isnull in self.branch(st, v.t == none_s, 'isnone'):
                if isnull:
                    out.append(self.raise_(s2, 'TypeError', origin='int(None) L%d' % ln))
                    continue
                for s3, ok in self.branch(s2, L.is_int(v.t), 'isint'):
                    if ok:
                        out.append((s3, SInt(L.int_of(v.t))))
                    else:
                        out.append(self.raise_(s3, 'ValueError', origin='int() L%d' % ln))
            return out
        raise ToolLimit('int() of %r' % (v,))

    def bi_float(self, f, pos, kws, st, ln):
        v = pos[0]
        if isinstance(v, SStr):
            self.assumed_used.add('A-NUM')
            out = []
            for s2, isnull in self.branch(st, v.t == none_s, 'isnone'):
                if isnull:
                    out.append(self.raise_(s2, 'TypeError', origin='float(None) L%d' % ln))
                    continue
                for s3, ok in self.branch(s2, L.is_float(v.t), 'isfloat'):
                    if ok:
                        out.append((s3, SReal(L.float_of(v.t))))
                    else:
                        out.append(self.raise_(s3, 'ValueError', origin='float() L%d' % ln))
            return out
        if isinstance(v, SReal):
            return [(st, v)]
        raise ToolLimit('float() of %r' % (v,))

    def bi_str(self, f, pos, kws, st, ln):
        v = pos[0]
        if isinstance(v, SStr):
            return [(st, v)]
        if isinstance(v, SObj):
            m = v.cls.lookup('__str__')
            if m is not None:
                return self.call_function(m, [v], {}, st)
        if isinstance(v, SExc):
            r = SStr(self.W.fresh('excstr', Str))
            st.assume(r.t != none_s)
            r.parts = [v]
            return [(st, r)]
        if isinstance(v, SNone):
            return [(st, self.lit('None'))]
        raise ToolLimit('str() of %r' % (v,))

    def bi_print(self, f, pos, kws, st, ln):
        self.assumed_used.add('A-IO')
        vals = []
        res = [(st, [])]
        # print calls str() on objects
        for v in pos:
            nxt = []
            for s, acc in res:
                if isinstance(acc, Raised):
                    nxt.append((s, acc))
                elif isinstance(v, SObj):
                    for s2, r in self.bi_str(None, [v], {}, s, ln):
                        nxt.append((s2, r if isinstance(r, Raised) else acc + [r]))
                else:
                    nxt.append((s, acc + [v]))
            res = nxt
        out = []
        for s, acc in res:
            if isinstance(acc, Raised):
                out.append((s, acc))
            else:
                s.out.append(('print', acc, ln))
                out.append((s, NONE))
        return out

    def _cls_name(self, c):
        return c.cls if isinstance(c.cls, str) else c.cls.name

    def bi_issubclass(self, f, pos, kws, st, ln):
        a, b = pos
        if isinstance(a, SCls) and isinstance(b, SCls) and not isinstance(a.cls, str) and not isinstance(b.cls, str):
            return [(st, SBool(a.cls.is_subclass_of(b.cls)))]
        if isinstance(a, SSymCls) and isinstance(b, SCls) and not isinstance(b.cls, str):
            # a symbolic class is a subclass of b iff it is one of b's (finitely many) repository subclasses
            subs = [c for c in self.repo.classes.values() if c.is_subclass_of(b.cls)]
            return [(st, SBool(z3.Or(*[a.t == self.W.clsconst(c.name) for c in subs])))]
        raise ToolLimit('issubclass(%r, %r)' % (a, b))

    def bi_isinstance(self, f, pos, kws, st, ln):
        a, b = pos
        if isinstance(a, SObj) and isinstance(b, SCls) and not isinstance(b.cls, str) and '$cls' not in st.fields(a) \
                and a.cls.name != 'MosFile':
            return [(st, SBool(a.cls.is_subclass_of(b.cls)))]
        if isinstance(a, SObj) and isinstance(b, SCls) and not isinstance(b.cls, str):
            if a.cls.is_subclass_of(b.cls):
                return [(st, SBool(True))]
            cv = st.fields(a).get('$cls')
            if isinstance(cv, SSymCls):
                subs = [c for c in self.repo.classes.values() if c.is_subclass_of(b.cls)]
                return [(st, SBool(z3.Or(*[cv.t == self.W.clsconst(c.name) for c in subs])))]
            if cv is None and b.cls.is_subclass_of(a.cls):
                # an object known only by a base class: whether it is an instance of the subclass is an unknown, fixed per (object, class)
                return [(st, SBool(z3.Bool('isinst!%s!%s' % (a.oid, b.cls.name))))]
            if cv is None and not b.cls.is_subclass_of(a.cls):
                raise ToolLimit('isinstance(%r, %r): unrelated classes' % (a, b))
        raise ToolLimit('isinstance(%r, %r)' % (a, b))

    def bi_all(self, f, pos, kws, st, ln):
        v = pos[0]
        if isinstance(v, SList) and v.concrete is None:
            k = z3.Int('k!all%d' % self.W.counter)
            self.W.counter += 1
            el = v.elem(k)
            if not isinstance(el, SBool):
                raise ToolLimit('all() of non-bool template')
            return [(st, SBool(z3.ForAll([k], z3.Implies(z3.And(0 <= k, k < v.length), el.t))))]
        if isinstance(v, SList):
            cs = []
            for it in v.concrete:
                if not isinstance(it, SBool):
                    raise ToolLimit('all() element')
                cs.append(it.t)
            return [(st, SBool(z3.And(*cs) if cs else True))]
        raise ToolLimit('all() of %r' % (v,))

    def bi_sum(self, f, pos, kws, st, ln):
        c = self.contracts.get('builtin.sum')
        if c is None:
            raise ToolLimit('sum() needs the assumed contract builtin.sum')
        return c.apply(self, st, {'xs': pos[0]})

    def bi_sorted(self, f, pos, kws, st, ln):
        xs = pos[0]
        items = xs.items if isinstance(xs, STuple) else (xs.concrete if isinstance(xs, SList) else None)
        if items is not None and len(items) == 2 and all(isinstance(x, SInt) for x in items):
            a, b = items
            return [(st, SList.of([SInt(z3.If(a.t <= b.t, a.t, b.t)), SInt(z3.If(a.t <= b.t, b.t, a.t))]))]
        c = self.contracts.get('builtin.sorted')
        if c is None:
            raise ToolLimit('sorted() needs the assumed contract builtin.sorted')
        return c.apply(self, st, {'xs': pos[0]})

    # --- warnings / copy / itertools
    def bi_warnings_warn(self, f, pos, kws, st, ln):
        self.assumed_used.add('A-WARN')
        cat = pos[1] if len(pos) > 1 else kws.get('category')
        name = cat.cls if isinstance(cat.cls, str) else cat.cls.name
        werr = self.cfg.get('WERR')
        if werr is not None:
            out = []
            for s2, w in self.branch(st, werr, 'WERR'):
                if w:
                    out.append(self.raise_(s2, cat.cls, origin='warnings.warn L%d' % ln))
                else:
                    s2.warns.append(name)
                    out.append((s2, NONE))
            return out
        st.warns.append(name)
        return [(st, NONE)]

    def bi_copy_deepcopy(self, f, pos, kws, st, ln):
        v = pos[0]
        if not isinstance(v, SNode):
            raise ToolLimit('deepcopy of %r' % (v,))
        self.assumed_used.add('A-COPY')
        out = []
        for s2, isnull in self.branch(st, v.t == null, 'isnone'):
            if isnull:
                out.append((s2, SNode(null)))
                continue
            e = s2.clock + 1
            s2.clock = e
            H2, ax = s2.heap.deepcopy_event(e)
            s2.set_heap(H2, ax)
            s2.writes.append(('alloc', L.cp(e, v.t), s2.heap, None))
            out.append((s2, SNode(L.cp(e, v.t))))
        return out

    def bi_xml_etree_ElementTree_SubElement(self, f, pos, kws, st, ln):
        p, t = pos[0], pos[1]
        self.assumed_used.add('A-ET-NEW')
        out = []
        for s2, isnull in self.branch(st, p.t == null, 'isnone'):
            if isnull:
                out.append(self.raise_(s2, 'TypeError', origin='SubElement(None) L%d' % ln))
                continue
            e = s2.clock + 1
            s2.clock = e
            H2, ax = s2.heap.newnode_event(e, t.t)
            s2.set_heap(H2, ax)
            n = L.newnode(e)
            s2.writes.append(('alloc', n, s2.heap, None))
            out.extend(self.el_insert(s2, p.t, s2.heap.len(p.t), n, ln, 'append'))
            out[-1] = (out[-1][0], SNode(n)) if not isinstance(out[-1][1], Raised) else out[-1]
        return out

    def bi_itertools_chain_from_iterable(self, f, pos, kws, st, ln):
        c = self.contracts.get('builtin.chain')
        if c is None:
            raise ToolLimit('chain.from_iterable needs the assumed contract builtin.chain')
        return c.apply(self, st, {'xss': pos[0]})

    def bi_elementtree_getroot(self, f, pos, kws, st, ln):
        return [(st, f.self_val.root)]

    def bi_dateutil_parser_parse(self, f, pos, kws, st, ln):
        v = pos[0]
        self.assumed_used.add('A-DT')
        if isinstance(v, SNone):
            return [self.raise_(st, 'TypeError', origin='parse(None) L%d' % ln)]
        if not isinstance(v, SStr):
            raise ToolLimit('dateutil parse of %r' % (v,))
        out = []
        for s2, isnull in self.branch(st, v.t == none_s, 'isnone'):
            if isnull:
                out.append(self.raise_(s2, 'TypeError', origin='parse(None) L%d' % ln))
                continue
            for s3, ok in self.branch(s2, L.is_dt(v.t), 'isdt'):
                if ok:
                    out.append((s3, SOpaque(L.dt_of(v.t), 'datetime')))
                else:
                    out.append(self.raise_(s3, 'ValueError', origin='dateutil parse L%d' % ln))
        return out

    def bi_datetime_timedelta(self, f, pos, kws, st, ln):
        v = kws.get('seconds')
        self.assumed_used.add('A-DT')
        if isinstance(v, SReal):
            out = []
            for s2, bad in self.branch(st, v.isnone, 'isnone'):
                if bad:
                    out.append(self.raise_(s2, 'TypeError', origin='timedelta(seconds=None) L%d' % ln))
                else:
                    out.append((s2, SOpaque(v.t, 'timedelta')))
            return out
        if isinstance(v, SInt):
            return [(st, SOpaque(z3.ToReal(v.t), 'timedelta'))]
        if isinstance(v, SNone):
            return [self.raise_(st, 'TypeError', origin='timedelta(seconds=None) L%d' % ln)]
        raise ToolLimit('timedelta(%r)' % (v,))

    def bi_xml_etree_ElementTree_fromstring(self, f, pos, kws, st, ln):
        return self.c_apply('lib.ElementTree.fromstring', st, {'text': pos[0]})

    def bi_xml_etree_ElementTree_parse(self, f, pos, kws, st, ln):
        return self.c_apply('lib.ElementTree.parse', st, {'source': pos[0]})

    def bi_xml_etree_ElementTree_tostring(self, f, pos, kws, st, ln):
        e = pos[0]
        if isinstance(e, SNone) or (isinstance(e, SNode) and False):
            return [self.raise_(st, 'AttributeError', origin='tostring(None) L%d' % ln)]
        out = []
        for s2, isnull in self.branch(st, e.t == null, 'isnone'):
            if isnull:
                out.append(self.raise_(s2, 'AttributeError', origin='tostring(None) L%d' % ln))
            else:
                out.extend(self.c_apply('lib.ElementTree.tostring', s2, {'element': e}))
        return out

    def c_apply(self, name, st, bound):
        c = self.contracts.get(name)
        if c is None:
            raise ToolLimit('library call needs the assumed contract %s' % name)
        self.used_contracts.add(name)
        return c.apply(self, st, bound)

    # --- command line plumbing (A-IO, A-ARGPARSE)
    def bi_stderr_write(self, f, pos, kws, st, ln):
        self.assumed_used.add('A-IO')
        st.err.append(('write', pos, ln))
        return [(st, NONE)]

    def bi_parser_print_help(self, f, pos, kws, st, ln):
        self.assumed_used.add('A-ARGPARSE')
        st.out.append(('help', [], ln))
        return [(st, NONE)]

    def bi_parser_parse_args(self, f, pos, kws, st, ln):
        return self.c_apply('lib.argparse.parse_args', st, {'args': pos[0] if pos else NONE})

    def bi_cli_command(self, f, pos, kws, st, ln):
        return self.c_apply('lib.cli.command', st, {})

    def bi_open(self, f, pos, kws, st, ln):
        self.assumed_used.add('A-IO')
        o = SOpaque(None, 'file')
        o.path, o.mode = pos[0], pos[1] if len(pos) > 1 else None
        return [(st, o)]

    def bi_file_write(self, f, pos, kws, st, ln):
        st.files.append(('write', f.self_val.path, pos[0], ln))
        return [(st, NONE)]

    # --- boto3 (A-S3): lazy handles, paginated listing, object download
    def bi_s3resource_Object(self, f, pos, kws, st, ln):
        self.assumed_used.add('A-S3')
        o = SOpaque(None, 's3object')
        o.bucket, o.key = pos[0], pos[1]
        return [(st, o)]

    def bi_s3object_get(self, f, pos, kws, st, ln):
        o = SOpaque(None, 's3obj')
        o.src = f.self_val
        return [(st, o)]

    def s3_getitem(self, st, o, key, e):
        if o.kind == 's3obj' and key.py == 'Body':
            b = SOpaque(None, 's3body')
            b.src = o.src
            return [(st, b)]
        if o.kind == 's3page' and key.py == 'Contents':
            out = []
            for s2, has in self.branch(st, o.has_contents, 'contents'):
                if has:
                    out.append((s2, o.contents))
                else:
                    out.append(self.raise_(s2, 'KeyError', origin="page['Contents']"))
            return out
        if o.kind == 's3file' and key.py == 'Key':
            return [(st, SStr(o.t))]
        raise ToolLimit('subscript %r of %s' % (key, o.kind))

    def bi_s3body_read(self, f, pos, kws, st, ln):
        src = f.self_val.src
        r = SStr(L.mkfun('s3_content', Str, Str, Str)(src.bucket.t, src.key.t))
        st.assume(r.t != none_s)
        return [(st, r)]

    def bi_s3client_get_paginator(self, f, pos, kws, st, ln):
        self.assumed_used.add('A-S3')
        return [(st, SOpaque(None, 'paginator'))]

    def bi_paginator_paginate(self, f, pos, kws, st, ln):
        c = self.contracts.get('lib.s3.paginate')
        if c is None:
            raise ToolLimit('paginate needs the assumed contract lib.s3.paginate')
        return c.apply(self, st, {'Bucket': kws.get('Bucket'), 'Prefix': kws.get('Prefix')})

    # --- str methods (A-STR: uninterpreted but functional)
    def bi_str_strip(self, f, pos, kws, st, ln):
        self.assumed_used.add('A-STR')
        s = f.self_val
        if s.py is not None:
            return [(st, self.lit(s.py.strip()))]
        r = SStr(L.s_strip(s.t))
        st.assume(r.t != none_s)
        return [(st, r)]

    def _str_unary(self, name, f, st, extra=()):
        # an uninterpreted total function of the receiver (and its arguments): nothing is known about the result but that it is a string
        self.assumed_used.add('A-STR')
        args = [f.self_val.t] + [x.t for x in extra if isinstance(x, SStr)]
        r = SStr(L.mkfun('str_' + name + ('%d' % len(args) if len(args) > 1 else ''), *([Str] * (len(args) + 1)))(*args))
        st.assume(r.t != none_s)
        return [(st, r)]

    def bi_str_format(self, f, pos, kws, st, ln):
        # '{}ID'.format(tag) is the ID tag name (as f'{tag}ID'); every other formatted text is an opaque, non-None message string
        s = f.self_val
        if s.py in ('{}ID', '{0}ID') and len(pos) == 1 and not kws and isinstance(pos[0], SStr):
            x = pos[0]
            return [(st, self.lit(x.py + 'ID') if x.py is not None else SStr(L.idtag(x.t)))]
        if s.py is None:
            raise ToolLimit('format() of a computed format string')
        r = SStr(self.W.fresh('fmt', Str))
        r.parts = list(pos) + list(kws.values())
        st.assume(r.t != none_s)
        return [(st, r)]

    def bi_str_lower(self, f, pos, kws, st, ln): return self._str_unary('lower', f, st)
    def bi_str_upper(self, f, pos, kws, st, ln): return self._str_unary('upper', f, st)
    def bi_str_title(self, f, pos, kws, st, ln): return self._str_unary('title', f, st)
    def bi_str_casefold(self, f, pos, kws, st, ln): return self._str_unary('casefold', f, st)
    def bi_str_lstrip(self, f, pos, kws, st, ln): return self._str_unary('lstrip', f, st, pos)
    def bi_str_rstrip(self, f, pos, kws, st, ln): return self._str_unary('rstrip', f, st, pos)
    def bi_str_decode(self, f, pos, kws, st, ln): return self._str_unary('decode', f, st, pos)
    def bi_str_encode(self, f, pos, kws, st, ln): return self._str_unary('encode', f, st, pos)

    def bi_str_replace(self, f, pos, kws, st, ln):
        self.assumed_used.add('A-STR')
        r = SStr(L.mkfun('str_replace', Str, Str, Str, Str)(f.self_val.t, pos[0].t, pos[1].t))
        st.assume(r.t != none_s)
        return [(st, r)]

    def bi_str_startswith(self, f, pos, kws, st, ln):
        self.assumed_used.add('A-STR')
        if isinstance(pos[0], STuple):
            return [(st, SBool(z3.Or(*[L.s_startswith(f.self_val.t, x.t) for x in pos[0].items])))]
        return [(st, SBool(L.s_startswith(f.self_val.t, pos[0].t)))]

    def bi_str_endswith(self, f, pos, kws, st, ln):
        self.assumed_used.add('A-STR')
        if isinstance(pos[0], STuple):
            return [(st, SBool(z3.Or(*[L.s_endswith(f.self_val.t, x.t) for x in pos[0].items])))]
        return [(st, SBool(L.s_endswith(f.self_val.t, pos[0].t)))]

    # --- Element methods (A-ET-LIST, A-ET-FIND)
    def bi_Element_find(self, f, pos, kws, st, ln):
        p = f.self_val
        t = pos[0]
        self.assumed_used.add('A-ET-FIND')
        if t.py is not None and not t.py.replace('_', '').isalnum():
            if t.py == ".//studioCommand[@type='note']":
                return [(st, SNode(L.note_path(p.t)))]
            raise ToolLimit('ElementPath expression %r' % t.py)
        return [(st, SNode(st.heap.find(p.t, t.t)))]

    def bi_Element_findtext(self, f, pos, kws, st, ln):
        # findtext(tag[, default]) : text of the first matching child ('' if it has no text), default (None) if absent
        p, t = f.self_val, pos[0]
        self.assumed_used.add('A-ET-FIND')
        if t.py is not None and not t.py.replace('_', '').isalnum():
            raise ToolLimit('ElementPath expression %r' % t.py)
        dflt = pos[1] if len(pos) > 1 else kws.get('default', NONE)
        dt = none_s if isinstance(dflt, SNone) else dflt.t
        n = st.heap.find(p.t, t.t)
        return [(st, SStr(z3.If(n == null, dt, z3.If(L.text(n) == none_s, self.W.lit(''), L.text(n)))))]

    def bi_Element_findall(self, f, pos, kws, st, ln):
        p = f.self_val
        t = pos[0]
        self.assumed_used.add('A-ET-FIND')
        if t.py is not None and not t.py.replace('_', '').isalnum():
            raise ToolLimit('ElementPath expression %r' % t.py)
        H = st.heap
        r = SList(H.falen(p.t, t.t), lambda k, H=H, p=p.t, t=t.t: SNode(H.fanode(p, t, k)),
                  desc='findall(%s,%s)' % (p.t, t.py or t.t))
        r.findall = (H, p.t, t.t)
        return [(st, r)]

    def bi_Element_remove(self, f, pos, kws, st, ln):
        p, x = f.self_val, pos[0]
        self.assumed_used.add('A-ET-LIST')
        if isinstance(x, SNone):
            x = SNode(null)
        out = []
        H = st.heap
        for s2, ismem in self.branch(st, H.mem(p.t, x.t), 'mem'):
            if not ismem:
                out.append(self.raise_(s2, 'ValueError', origin='Element.remove(x): x not in list L%d' % ln))
                continue
            s2.writes.append(('kids', p.t, H, ('remove', x.t)))
            H2, ax = H.remove(p.t, x.t)
            s2.set_heap(H2, ax)
            out.append((s2, NONE))
        return out

    def el_insert(self, st, p, idx, x, ln, what):
        H = st.heap
        # tree shape: the inserted node must not already be a child (ElementTree would accept it,
        # but the result is no longer a tree) -- obligation, see DESIGN 3.3 / C13
        self.oblige(st, 'tree.%s_not_already_child@L%d' % (what, ln), z3.Not(H.mem(p, x)), kind='safe', props=('C13',))
        self.oblige(st, 'tree.%s_not_none@L%d' % (what, ln), x != null, kind='safe', props=('C12',))
        self.oblige(st, 'tree.%s_index_nonneg@L%d' % (what, ln), idx >= 0, kind='safe')
        st.assume(z3.Not(H.mem(p, x)), x != null, idx >= 0)
        st.writes.append(('kids', p, H, ('insert', x, idx)))
        H2, ax = H.insert(p, idx, x)
        st.set_heap(H2, ax)
        return [(st, NONE)]

    def bi_Element_insert(self, f, pos, kws, st, ln):
        p, idx, x = f.self_val, pos[0], pos[1]
        self.assumed_used.add('A-ET-LIST')
        if isinstance(idx, SNone):
            return [self.raise_(st, 'TypeError', origin='insert(None, x) L%d' % ln)]
        if isinstance(x, SNone):
            x = SNode(null)
        return self.el_insert(st, p.t, idx.t, x.t, ln, 'insert')

    def bi_Element_append(self, f, pos, kws, st, ln):
        p, x = f.self_val, pos[0]
        self.assumed_used.add('A-ET-LIST')
        if isinstance(x, SNone):
            x = SNode(null)
        return self.el_insert(st, p.t, st.heap.len(p.t), x.t, ln, 'append')

    # --- dict methods
    def bi_dict_items(self, f, pos, kws, st, ln):
        d = f.self_val
        if d.concrete is not None:
            return [(st, SList.of([STuple([k, v]) for k, v in d.concrete]))]
        raise ToolLimit('items() of symbolic dict')

    def bi_attrib_get(self, f, pos, kws, st, ln):
        # Element.attrib.get(key): the attribute value or None
        return [(st, SStr(L.attrib(f.self_val.node, pos[0].t)))]

    def bi_dict_get(self, f, pos, kws, st, ln):
        d = f.self_val
        if d.concrete is not None:
            key = pos[0]
            cs = [(self.sv_eq(key, k), v) for k, v in d.concrete]
            for c, v in cs:
                if c is True:
                    return [(st, v)]
            cs = [(c, v) for c, v in cs if c is not False]
            out = []
            cur = st
            for c, v in cs:
                nxt = None
                for s2, b in self.branch(cur, c, 'get%d' % ln):
                    if b:
                        out.append((s2, v))
                    else:
                        nxt = s2
                if nxt is None:
                    return out
                cur = nxt
            out.append((cur, pos[1] if len(pos) > 1 else NONE))
            return out
        if d.sym is not None and isinstance(pos[0], SNode):
            keys, vals, nonev = d.sym
            k = pos[0].t
            present = z3.Select(keys, k)
            return [(st, SReal(z3.Select(vals, k), z3.Or(z3.Not(present), z3.Select(nonev, k))))]
        raise ToolLimit('dict.get')
