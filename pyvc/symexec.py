"""
symexec.py -- symbolic execution of the real function bodies (ast) of /repo.

Calls to functions that have an *opaque* contract are replaced by the
contract (modular verification); every other repository function is
*transparent*: its real body is executed in place.  Loops over symbolic
collections need an invariant from the contract of the function under
verification; loops over concrete collections are unrolled completely.
"""
import ast
import z3
from . import logic as L
from .logic import Node, Str, null, none_s, dedupe_versions
from .values import *
from .state import State, Obligation


class ToolLimit(Exception):
    """construct outside the supported subset -- never a violation"""


class LoopCtx:
    mods_of = {}

    @property
    def mods(self):
        return self._mods if hasattr(self, '_mods') else LoopCtx.mods_of.get(self.ordinal, set())

    @mods.setter
    def mods(self, v):
        self._mods = v

    def __init__(self, ordinal, entry, seq):
        self.ordinal = ordinal
        self.entry = entry      # State at loop entry (before the first iteration)
        self.seq = seq          # SList being iterated
        self.k = None           # z3 Int: iterations completed
        self.st = None          # State at the point where the invariant is evaluated
        self.cur = None         # current element (SV) at head of iteration k (only in body)


class FnCtx:
    def __init__(self, fi, top=False):
        self.fi = fi
        self.top = top
        self.loop_ord = {}
        n = 0
        for node in ast.walk(fi.node):
            if isinstance(node, ast.For):
                pass
        # ordinals in source order
        fors = [nd for nd in ast.walk(fi.node) if isinstance(nd, ast.For) and not is_accumulator_loop(fi.node, nd)]
        fors.sort(key=lambda nd: (nd.lineno, nd.col_offset))
        for i, nd in enumerate(fors):
            self.loop_ord[id(nd)] = i


def is_accumulator_loop(fn_node, stmt):
    """accumulator pattern AND the accumulator is initialised empty (`acc = []`, `list()`, `set()`) earlier in the same block with
    nothing in between mentioning it: only then is the loop executed as a comprehension and left out of the loop numbering"""
    m = acc_pattern(stmt)
    if m is None:
        return False
    acc = m[0]['acc']
    for nd in ast.walk(fn_node):
        for field in ('body', 'orelse', 'finalbody'):
            blk = getattr(nd, field, None)
            if isinstance(blk, list) and any(x is stmt for x in blk):
                i = [j for j, x in enumerate(blk) if x is stmt][0]
                for prev in reversed(blk[:i]):
                    if (isinstance(prev, ast.Assign) and len(prev.targets) == 1 and isinstance(prev.targets[0], ast.Name)
                            and prev.targets[0].id == acc):
                        v = prev.value
                        empty = (isinstance(v, ast.List) and not v.elts) or (
                            isinstance(v, ast.Call) and isinstance(v.func, ast.Name) and v.func.id in ('list', 'set') and not v.args and not v.keywords)
                        return bool(empty)
                    if any(isinstance(x, ast.Name) and x.id == acc for x in ast.walk(prev)):
                        return False
                return False
    return False


def acc_pattern(stmt):
    """static part of the accumulator-loop pattern (see Executor.accumulator_loop): -> (found, conds, subst) or None"""
    import copy as _copy
    if stmt.orelse:
        return None
    subst = {}

    class Sub(ast.NodeTransformer):
        def visit_Name(self, node):
            if isinstance(node.ctx, ast.Load) and node.id in subst:
                return _copy.deepcopy(subst[node.id])
            return node

    def sub(e):
        return Sub().visit(_copy.deepcopy(e))
    conds = []
    found = {}

    def walk(stmts):
        for i, s in enumerate(stmts):
            last = i == len(stmts) - 1
            if isinstance(s, ast.Assign) and len(s.targets) == 1 and isinstance(s.targets[0], ast.Name) and not last:
                subst[s.targets[0].id] = sub(s.value)
                continue
            if isinstance(s, ast.If) and len(s.body) == 1 and isinstance(s.body[0], ast.Continue):
                conds.append(ast.UnaryOp(op=ast.Not(), operand=sub(s.test)))
                if s.orelse:
                    return last and walk(s.orelse)
                continue
            if isinstance(s, ast.If) and last and not s.orelse:
                conds.append(sub(s.test))
                return walk(s.body)
            if isinstance(s, ast.If) and last and len(s.orelse) == 1 and isinstance(s.orelse[0], ast.Continue):
                conds.append(sub(s.test))
                return walk(s.body)
            if (last and isinstance(s, ast.Expr) and isinstance(s.value, ast.Call) and isinstance(s.value.func, ast.Attribute)
                    and s.value.func.attr in ('append', 'add') and isinstance(s.value.func.value, ast.Name)
                    and len(s.value.args) == 1 and not s.value.keywords):
                found['acc'] = s.value.func.value.id
                found['kind'] = s.value.func.attr
                found['val'] = sub(s.value.args[0])
                return True
            return False
        return False
    if not walk(stmt.body):
        return None
    return found, conds, subst


def assigned_names(stmts):
    out = set()
    for s in stmts:
        for nd in ast.walk(s):
            if isinstance(nd, ast.Name) and isinstance(nd.ctx, ast.Store):
                out.add(nd.id)
            if isinstance(nd, ast.Subscript) and isinstance(nd.ctx, ast.Store) and isinstance(nd.value, ast.Name):
                out.add(nd.value.id)        # d[k] = v modifies d
            if isinstance(nd, ast.Call) and isinstance(nd.func, ast.Attribute) and nd.func.attr == 'append' \
                    and isinstance(nd.func.value, ast.Name):
                out.add(nd.func.value.id)
    return out


class Executor:
    MAX_DEPTH = 12

    def __init__(self, repo, world, contracts, target, cfg=None, prune=True):
        self.repo = repo
        self.W = world
        self.contracts = contracts      # qualname -> contract object
        self.target = target            # qualname of the function under verification
        self.obligations = []
        self.cfg = cfg or {}
        self.prune = prune
        self.depth = 0
        self.n_solver_calls = 0
        self.inlined = set()
        self.used_contracts = set()
        self.assumed_used = set()
        self.tcontract = contracts.get(target)
        self.dead_paths = 0

    # ------------------------------------------------------------------ utils
    def lit(self, s):
        return SStr(self.W.lit(s), py=s)

    def oblige(self, st, name, goal, kind='safe', props=()):
        if goal is True:
            return
        if isinstance(goal, bool):
            goal = z3.BoolVal(goal)
        g = z3.simplify(goal)
        if z3.is_true(g):
            # still counted, trivially discharged
            ob = Obligation(self.target, name, [], z3.BoolVal(True), [], kind=kind, path=self.pathname(st), props=props)
            ob.result = 'trivial'
            self.obligations.append(ob)
            return
        self.obligations.append(Obligation(self.target, name, st.facts, goal, st.versions, kind=kind,
                                           path=self.pathname(st), props=props))

    def pathname(self, st):
        return '/'.join(st.trace[-12:])

    def feasible(self, st, extra=None):
        """False only if the path condition is refuted quickly."""
        if not self.prune:
            return True
        s = z3.Solver()
        s.set('timeout', 400)
        s.set('auto_config', False)
        s.set('smt.mbqi', False)
        for f in st.facts:
            s.add(f)
        if extra is not None:
            s.add(extra)
        for H, clk in dedupe_versions(st.versions):
            for a in H.axioms(clk):
                s.add(a)
        for a in self.W.all_global_axioms():
            s.add(a)
        self.n_solver_calls += 1
        r = s.check()
        return r != z3.unsat

    def branch(self, st, cond, label=''):
        """fork on a z3 Bool / python bool; returns [(state, bool)] for the feasible sides"""
        if isinstance(cond, bool):
            return [(st, cond)]
        c = z3.simplify(cond)
        if z3.is_true(c):
            return [(st, True)]
        if z3.is_false(c):
            return [(st, False)]
        out = []
        for val, f in ((True, c), (False, z3.Not(c))):
            if self.feasible(st, f):
                s2 = st.fork()
                s2.assume(f)
                s2.trace.append('%s%s' % (label, '+' if val else '-'))
                out.append((s2, val))
            else:
                self.dead_paths += 1
        return out

    def raise_(self, st, cls, origin='', msg=None):
        if isinstance(cls, str) and cls in self.repo.by_simple_class:
            cls = self.repo.by_simple_class[cls]
        return (st, Raised(SExc(cls, msg=msg, origin=origin)))

    # ------------------------------------------------------------------ truthiness
    def truth(self, st, v, origin=''):
        """-> list of (state, z3Bool|bool|Raised)"""
        if isinstance(v, SNone):
            return [(st, False)]
        if isinstance(v, SBool):
            return [(st, v.t)]
        if isinstance(v, SStr):
            if v.py is not None:
                return [(st, v.py != '')]
            return [(st, L.s_truthy(v.t))]
        if isinstance(v, SInt):
            return [(st, v.t != 0)]
        if isinstance(v, SReal):
            return [(st, z3.And(z3.Not(v.isnone), v.t != 0))]
        if isinstance(v, SList):
            return [(st, v.length > 0)]
        if isinstance(v, STuple):
            return [(st, len(v.items) > 0)]
        if isinstance(v, (SObj, SCls, SFunc, SOpaque, SModule)):
            return [(st, True)]
        if isinstance(v, SDict):
            if v.concrete is not None:
                return [(st, len(v.concrete) > 0)]
            raise ToolLimit('truthiness of symbolic dict')
        if isinstance(v, SNode):
            # Element.__bool__ : len(e) != 0, DeprecationWarning on CPython >= 3.12 (A-ET-BOOL)
            out = []
            for s2, isnull in self.branch(st, v.t == null, 'isnone'):
                if isnull:
                    out.append((s2, False))
                else:
                    self.assumed_used.add('A-ET-BOOL')
                    werr = self.cfg.get('WERR')
                    if werr is not None:
                        for s3, w in self.branch(s2, werr, 'WERR'):
                            if w:
                                out.append(self.raise_(s3, 'DeprecationWarning', origin='Element.__bool__ ' + origin))
                            else:
                                out.append((s3, s3.heap.len(v.t) != 0))
                    else:
                        out.append((s2, s2.heap.len(v.t) != 0))
            return out
        raise ToolLimit('truthiness of %r' % (v,))

    # ------------------------------------------------------------------ statements
    def exec_block(self, stmts, st, fx):
        """-> list of (state, ctl) ; ctl None = fell through"""
        states = [(st, None)]
        for stmt in stmts:
            nxt = []
            for s, ctl in states:
                if ctl is not None:
                    nxt.append((s, ctl))
                else:
                    nxt.extend(self.exec_stmt(stmt, s, fx))
            states = nxt
        return states

    def exec_stmt(self, stmt, st, fx):
        m = getattr(self, 'st_' + type(stmt).__name__, None)
        if m is None:
            raise ToolLimit('statement %s in %s' % (type(stmt).__name__, fx.fi.qualname))
        return m(stmt, st, fx)

    def _prop(self, results):
        """split eval results into ok [(st,v)] and raised [(st,('raise',exc))]"""
        ok, bad = [], []
        for s, v in results:
            if isinstance(v, Raised):
                bad.append((s, ('raise', v.exc)))
            else:
                ok.append((s, v))
        return ok, bad

    def st_Expr(self, stmt, st, fx):
        ok, bad = self._prop(self.eval(stmt.value, st, fx))
        return [(s, None) for s, _ in ok] + bad

    def st_Pass(self, stmt, st, fx):
        return [(st, None)]

    def st_Break(self, stmt, st, fx):
        return [(st, ('break',))]

    def st_Continue(self, stmt, st, fx):
        return [(st, ('continue',))]

    def st_Return(self, stmt, st, fx):
        if stmt.value is None:
            return [(st, ('return', NONE))]
        ok, bad = self._prop(self.eval(stmt.value, st, fx))
        return [(s, ('return', v)) for s, v in ok] + bad

    def st_Assign(self, stmt, st, fx):
        ok, bad = self._prop(self.eval(stmt.value, st, fx))
        out = list(bad)
        for s, v in ok:
            res = [(s, None)]
            for tgt in stmt.targets:
                nres = []
                for s2, c in res:
                    if c is not None:
                        nres.append((s2, c))
                    else:
                        nres.extend(self.assign(tgt, v, s2, fx))
                res = nres
            out.extend(res)
        return out

    def assign(self, tgt, v, st, fx):
        if isinstance(tgt, ast.Name):
            st.locals[tgt.id] = v
            return [(st, None)]
        if isinstance(tgt, (ast.Tuple, ast.List)) and isinstance(v, SList) and v.concrete is None:
            n = len(tgt.elts)
            res = []
            for s2, ok in self.branch(st, v.length == n, 'unpack%d' % n):
                if not ok:
                    res.append((s2, ('raise', SExc('ValueError', origin='unpack: expected %d values' % n))))
                else:
                    res.extend(self.assign(tgt, STuple([v.elem(z3.IntVal(i)) for i in range(n)]), s2, fx))
            return res
        if isinstance(tgt, (ast.Tuple, ast.List)):
            items = self.unpack(v, len(tgt.elts), st)
            if isinstance(items, Raised):
                return [(st, ('raise', items.exc))]
            out = [(st, None)]
            for t, it in zip(tgt.elts, items):
                n = []
                for s2, c in out:
                    n.extend(self.assign(t, it, s2, fx) if c is None else [(s2, c)])
                out = n
            return out
        if isinstance(tgt, ast.Attribute):
            ok, bad = self._prop(self.eval(tgt.value, st, fx))
            out = list(bad)
            for s, o in ok:
                out.extend(self.setattr(s, o, tgt.attr, v, fx))
            return out
        if isinstance(tgt, ast.Subscript):
            ok, bad = self._prop(self.eval(tgt.value, st, fx))
            out = list(bad)
            for s, o in ok:
                ok2, bad2 = self._prop(self.eval(tgt.slice, s, fx))
                out.extend(bad2)
                for s2, key in ok2:
                    out.extend(self.setitem(s2, o, key, v, tgt, fx))
            return out
        raise ToolLimit('assignment target %s' % type(tgt).__name__)

    def unpack(self, v, n, st):
        if isinstance(v, STuple):
            if len(v.items) != n:
                return Raised(SExc('ValueError', origin='unpack'))
            return v.items
        if isinstance(v, SList) and v.concrete is not None:
            if len(v.concrete) != n:
                return Raised(SExc('ValueError', origin='unpack'))
            return v.concrete
        if isinstance(v, SList):
            # symbolic length: obligation that the length is n, else ValueError path
            raise ToolLimit('unpack of symbolic-length list (use a contract precondition)')
        raise ToolLimit('unpack of %r' % (v,))

    def setattr(self, st, o, attr, v, fx):
        if isinstance(o, SObj):
            st.fields(o)[attr] = v
            return [(st, None)]
        if isinstance(o, SNode):
            out = []
            for s2, isnull in self.branch(st, o.t == null, 'isnone'):
                if isnull:
                    out.append((s2, ('raise', SExc('AttributeError', origin='set .%s on None' % attr))))
                    continue
                if attr == 'tag':
                    if not isinstance(v, SStr):
                        raise ToolLimit('tag assigned a non-string')
                    s2.writes.append(('tag', o.t, s2.heap, v.t))
                    H2, ax = s2.heap.set_tag(o.t, v.t)
                    s2.set_heap(H2, ax)
                    out.append((s2, None))
                else:
                    raise ToolLimit('write to Element.%s (text/attrib/tail are modelled as never written)' % attr)
            return out
        if isinstance(o, SOpaque) and o.kind == 'namespace':
            o.fields = dict(o.fields)
            o.fields[attr] = v
            return [(st, None)]
        raise ToolLimit('setattr on %r' % (o,))

    def setitem(self, st, o, key, v, tgt, fx):
        if isinstance(o, SDict) and o.sym is not None and isinstance(key, SNode):
            keys, vals, nonev = o.sym
            if isinstance(v, SReal):
                nd = SDict(sym=(z3.Store(keys, key.t, True), z3.Store(vals, key.t, v.t), z3.Store(nonev, key.t, v.isnone)))
            elif isinstance(v, SInt):
                nd = SDict(sym=(z3.Store(keys, key.t, True), z3.Store(vals, key.t, z3.ToReal(v.t)), z3.Store(nonev, key.t, False)))
            elif isinstance(v, SNone):
                nd = SDict(sym=(z3.Store(keys, key.t, True), vals, z3.Store(nonev, key.t, True)))
            else:
                raise ToolLimit('dict value %r' % (v,))
            # rebinding: dict objects are referenced by name only in the supported code
            if isinstance(tgt.value, ast.Name):
                st.locals[tgt.value.id] = nd
                return [(st, None)]
        raise ToolLimit('item assignment on %r' % (o,))

    def st_AugAssign(self, stmt, st, fx):
        load = ast.copy_location(ast.BinOp(left=self._as_load(stmt.target), op=stmt.op, right=stmt.value), stmt)
        ok, bad = self._prop(self.eval(load, st, fx))
        out = list(bad)
        for s, v in ok:
            out.extend(self.assign(stmt.target, v, s, fx))
        return out

    def _as_load(self, t):
        import copy as _c
        t2 = _c.deepcopy(t)
        for nd in ast.walk(t2):
            if hasattr(nd, 'ctx'):
                nd.ctx = ast.Load()
        return t2

    def st_If(self, stmt, st, fx):
        out = []
        for s, c in self.eval_cond(stmt.test, st, fx):
            if isinstance(c, Raised):
                out.append((s, ('raise', c.exc)))
            elif c:
                out.extend(self.exec_block(stmt.body, s, fx))
            else:
                out.extend(self.exec_block(stmt.orelse, s, fx))
        return out

    def eval_cond(self, test, st, fx, label=None):
        """-> [(state, True|False|Raised)] with the state already constrained"""
        label = label or 'L%d' % getattr(test, 'lineno', 0)
        out = []
        for s, v in self.eval(test, st, fx):
            if isinstance(v, Raised):
                out.append((s, v))
                continue
            for s2, t in self.truth(s, v, origin=label):
                if isinstance(t, Raised):
                    out.append((s2, t))
                else:
                    out.extend(self.branch(s2, t, label))
        return out

    def st_Assert(self, stmt, st, fx):
        opt = self.cfg.get('OPT')
        outs = []
        starts = [(st, False)]
        if opt is not None:
            starts = self.branch(st, opt, 'OPT')
        for s0, skipped in starts:
            if skipped:
                outs.append((s0, None))
                continue
            for s, c in self.eval_cond(stmt.test, s0, fx):
                if isinstance(c, Raised):
                    outs.append((s, ('raise', c.exc)))
                elif c:
                    outs.append((s, None))
                else:
                    outs.append((s, ('raise', SExc('AssertionError', origin='assert L%d' % stmt.lineno))))
        return outs

    def st_Raise(self, stmt, st, fx):
        if stmt.exc is None:
            if st.cur_exc is None:
                raise ToolLimit('bare raise outside handler')
            return [(st, ('raise', st.cur_exc))]
        ok, bad = self._prop(self.eval(stmt.exc, st, fx))
        out = list(bad)
        for s, v in ok:
            if isinstance(v, SCls):
                v = SExc(v.cls, origin='L%d' % stmt.lineno)
            if not isinstance(v, SExc):
                raise ToolLimit('raise of %r' % (v,))
            v.origin = v.origin or 'L%d' % stmt.lineno
            if stmt.cause is not None and isinstance(stmt.cause, ast.Name) and v.cause is None:
                c = s.locals.get(stmt.cause.id)          # `raise X(...) from e`: remember what it was raised from
                if isinstance(c, SExc):
                    v.cause = c
            out.append((s, ('raise', v)))
        return out

    def st_Try(self, stmt, st, fx):
        if stmt.finalbody:
            raise ToolLimit('try/finally')
        out = []
        for s, ctl in self.exec_block(stmt.body, st, fx):
            if ctl is not None and ctl[0] == 'raise':
                exc = ctl[1]
                handled = False
                for h in stmt.handlers:
                    names = self.handler_names(h, s, fx)
                    if names is None or any(exc_isinstance(exc.cls, n) for n in names):
                        s2 = s
                        if h.name:
                            s2.locals[h.name] = exc
                        saved = s2.cur_exc
                        s2.cur_exc = exc
                        s2.trace.append('except:%s' % exc.name())
                        for s3, c3 in self.exec_block(h.body, s2, fx):
                            s3.cur_exc = saved
                            out.append((s3, c3))
                        handled = True
                        break
                if not handled:
                    out.append((s, ctl))
            elif ctl is None and stmt.orelse:
                out.extend(self.exec_block(stmt.orelse, s, fx))
            else:
                out.append((s, ctl))
        return out

    def handler_names(self, h, st, fx):
        if h.type is None:
            return None
        def nm(e):
            if isinstance(e, ast.Name):
                return e.id
            if isinstance(e, ast.Attribute):
                return e.attr
            raise ToolLimit('handler type')
        if isinstance(h.type, ast.Tuple):
            return [nm(e) for e in h.type.elts]
        return [nm(h.type)]

    def st_With(self, stmt, st, fx):
        # only `with open(path, 'w') as f:` is supported
        if len(stmt.items) != 1:
            raise ToolLimit('with (multiple items)')
        it = stmt.items[0]
        ok, bad = self._prop(self.eval(it.context_expr, st, fx))
        out = list(bad)
        for s, v in ok:
            if it.optional_vars is not None:
                out2 = self.assign(it.optional_vars, v, s, fx)
            else:
                out2 = [(s, None)]
            for s2, c in out2:
                if c is not None:
                    out.append((s2, c))
                else:
                    out.extend(self.exec_block(stmt.body, s2, fx))
        return out

    # ------------------------------------------------------------------ loops
    def st_For(self, stmt, st, fx):
        if stmt.orelse:
            raise ToolLimit('for/else')
        ok, bad = self._prop(self.eval(stmt.iter, st, fx))
        out = list(bad)
        for s, it in ok:
            seqs = self.as_iterable(s, it)
            for s1, seq in seqs:
                if isinstance(seq, Raised):
                    out.append((s1, ('raise', seq.exc)))
                elif seq.concrete is not None:
                    out.extend(self.unrolled_loop(stmt, s1, seq, fx))
                else:
                    out.extend(self.invariant_loop(stmt, s1, seq, fx))
        return out

    def as_iterable(self, st, it):
        """-> [(state, SList|Raised)]"""
        if isinstance(it, SList):
            return [(st, it)]
        if isinstance(it, STuple):
            return [(st, SList.of(it.items))]
        if isinstance(it, SDict) and it.concrete is not None:
            return [(st, SList.of([k for k in it.concrete_keys]))]
        if isinstance(it, SNode):
            out = []
            for s2, isnull in self.branch(st, it.t == null, 'isnone'):
                if isnull:
                    out.append((s2, Raised(SExc('TypeError', origin='iterate None'))))
                else:
                    H = s2.heap
                    p = it.t
                    self.assumed_used.add('A-ET-LIST')
                    lst = SList(H.len(p), lambda k, H=H, p=p: SNode(H.at(p, k)), desc='children(%s)' % p)
                    lst.children_of = (H, p)
                    out.append((s2, lst))
            return out
        if isinstance(it, SNone):
            return [(st, Raised(SExc('TypeError', origin='iterate None')))]
        raise ToolLimit('iteration over %r' % (it,))

    def unrolled_loop(self, stmt, st, seq, fx):
        states = [(st, None)]
        done = []
        for idx, item in enumerate(seq.concrete):
            nxt = []
            for s, ctl in states:
                assert ctl is None
                for s2, c in self.assign(stmt.target, item, s, fx):
                    if c is not None:
                        done.append((s2, c))
                        continue
                    s2.trace.append('it%d' % idx)
                    for s3, c3 in self.exec_block(stmt.body, s2, fx):
                        if c3 is None or c3[0] == 'continue':
                            nxt.append((s3, None))
                        elif c3[0] == 'break':
                            done.append((s3, None))
                        else:
                            done.append((s3, c3))
            states = nxt
        return states + done

    # --- accumulator loops: `acc = []` ... `for x in xs: [tmp = e;] [if c: continue] [if c:] acc.append(e)` is the comprehension
    # `acc = [e for x in xs if ...]` written out; it is executed as that comprehension (no invariant needed).  Conditions:
    # acc is empty at loop entry, the body is straight-line with pure temporaries, exactly one append/add at the end of the (nested)
    # body, and neither the loop variable nor a temporary is read after the loop.
    def accumulator_loop(self, stmt, st, fx):
        m = acc_pattern(stmt)
        if m is None:
            return None
        found, conds, subst = m
        import copy as _copy
        acc = found['acc']
        cur = st.locals.get(acc)
        if found['kind'] == 'append':
            if not (isinstance(cur, SList) and cur.concrete is not None and len(cur.concrete) == 0):
                raise ToolLimit('accumulator loop over a list that is not empty at loop entry')
        else:
            if not (isinstance(cur, SSet) and cur.base.concrete is not None and len(cur.base.concrete) == 0):
                raise ToolLimit('accumulator loop over a set that is not empty at loop entry')
        bound = {n.id for n in ast.walk(stmt.target) if isinstance(n, ast.Name)} | set(subst)
        if acc in bound:
            raise ToolLimit('accumulator loop: accumulator is also a loop variable')
        end = getattr(stmt, 'end_lineno', stmt.lineno)
        # later reads of the loop variable / temporaries are fine only where a later loop or comprehension binds the name again
        rebound = set()
        for nd in ast.walk(fx.fi.node):
            tgt = None
            if isinstance(nd, ast.For) and nd is not stmt:
                tgt, scope = nd.target, nd.body
            elif isinstance(nd, (ast.ListComp, ast.SetComp, ast.GeneratorExp, ast.DictComp)):
                tgt, scope = nd.generators[0].target, [nd]
            if tgt is None:
                continue
            names = {x.id for x in ast.walk(tgt) if isinstance(x, ast.Name)}
            for part in scope:
                for x in ast.walk(part):
                    if isinstance(x, ast.Name) and x.id in names and not (isinstance(nd, (ast.ListComp, ast.SetComp, ast.GeneratorExp, ast.DictComp))
                                                                          and any(x is y for y in ast.walk(nd.generators[0].iter))):
                        rebound.add(id(x))
        for n in ast.walk(fx.fi.node):
            if isinstance(n, ast.Name) and isinstance(n.ctx, ast.Load) and n.id in bound and n.lineno > end and id(n) not in rebound:
                raise ToolLimit('accumulator loop: %s is read after the loop' % n.id)
        gen = ast.comprehension(target=_copy.deepcopy(stmt.target), iter=_copy.deepcopy(stmt.iter), ifs=conds, is_async=0)
        for n in ast.walk(gen.target):
            if isinstance(n, ast.Name):
                n.ctx = ast.Store()
        comp = (ast.ListComp if found['kind'] == 'append' else ast.SetComp)(elt=found['val'], generators=[gen])
        new = ast.Assign(targets=[ast.Name(id=acc, ctx=ast.Store())], value=comp)
        ast.copy_location(new, stmt)
        ast.fix_missing_locations(new)
        st.trace.append('accloop@L%d' % stmt.lineno)
        return self.exec_stmt(new, st, fx)

    def invariant_loop(self, stmt, st, seq, fx):
        if id(stmt) not in fx.loop_ord:      # an accumulator loop (not numbered: loop specs are bound to the other loops)
            return self.accumulator_loop(stmt, st, fx)
        if not fx.top:
            raise ToolLimit('symbolic loop inside transparent function %s (needs an opaque contract)' % fx.fi.qualname)
        ordinal = fx.loop_ord[id(stmt)]
        inv = self.tcontract.loop(ordinal) if self.tcontract else None
        if inv is None:
            raise ToolLimit('loop #%d of %s has no invariant' % (ordinal, fx.fi.qualname))
        lp = LoopCtx(ordinal, st, seq)
        cx = self.cx
        LoopCtx.mods_of = getattr(LoopCtx, 'mods_of', {})
        mods = assigned_names(stmt.body) | assigned_names([ast.Expr(value=stmt.target)]) | \
            {n.id for n in ast.walk(stmt.target) if isinstance(n, ast.Name)}
        LoopCtx.mods_of[ordinal] = mods
        lp.mods = mods
        # --- initialisation (ghost functions get their initial definition first)
        lp.k, lp.st = z3.IntVal(0), st
        # ghost state variables: initial values (ghost code, affects no program variable)
        for gname, gval in inv.ghost_init(cx, lp).items():
            gc = self.W.fresh('g_' + gname, gval.sort())
            st.assume(gc == gval)
            st.ghost[gname] = gc
        for name, f in inv.invariant(cx, lp):
            self.oblige(st, 'inv-init#%d.%s' % (ordinal, name), f, kind='inv')
        writes_heap = inv.writes_heap
        out = []
        LoopCtx.mods_of[ordinal] = mods
        lp.mods = mods

        def havoc(s0, tag):
            s = s0.fork()
            if writes_heap or inv.writes_tags:
                H2 = L.Heap(L.nv() if writes_heap else s.heap.kv, L.nv() if inv.writes_tags else s.heap.tv)
                s.clock = self.W.fresh('clock', L.I)
                s.assume(s.clock >= s0.clock)
                s.heap = H2
                s.versions.append((H2, s.clock))
                s.writes.append(('loop', ordinal, s0.heap, None))
            for n in mods:
                if n in s.locals:
                    ht = getattr(inv, 'havoc_types', {})
                    kind = ht.get(n)
                    # wildcard keys bind by the type of the local at loop entry, not by its name (a renamed local stays bound)
                    if kind is None and isinstance(s.locals[n], SList) and '*list' in ht:
                        kind = ht['*list']
                    if kind is None and isinstance(s.locals[n], SDict) and '*dict' in ht:
                        kind = ht['*dict']
                    if kind is None and isinstance(s.locals[n], (SInt, SReal)) and '*num' in ht:
                        kind = ht['*num']
                    s.locals[n] = self.havoc_value(s.locals[n], n, kind)
            s.warns = []
            s.out = []
            s.err = []
            for gname, gsort in inv.ghost_vars(cx).items():
                s.ghost[gname] = self.W.fresh('g_' + gname, gsort)
            return s

        # --- arbitrary iteration
        sh = havoc(st, 'h')
        k = self.W.fresh('k', L.I)
        sh.assume(k >= 0, k < seq.length)
        lp.k, lp.st = k, sh
        for name, f in inv.invariant(cx, lp):
            sh.assume(f)
        sh.trace.append('loop%d' % ordinal)
        self.obligations.append(Obligation(self.target, 'loop_head_reachable_after_the_first_iteration#%d' % ordinal,
                                           sh.facts + [k >= 1], z3.BoolVal(False), sh.versions, kind='cover',
                                           path=self.pathname(sh), expect='not-unsat-strong'))
        cur = seq.elem(k)
        lp.cur = cur
        sh.locals['$k%d' % ordinal] = SInt(k)      # index of the iteration, visible to the invariants of nested loops
        for s2, c in self.assign(stmt.target, cur, sh, fx):
            if c is not None:
                out.append((s2, c))
                continue
            for s3, c3 in self.exec_block(stmt.body, s2, fx):
                if c3 is None or c3[0] == 'continue':
                    lpg = LoopCtx(ordinal, st, seq)
                    lpg.k, lpg.st, lpg.cur, lpg.head = k, s3, cur, sh
                    # ghost code at the end of the iteration: assignments to ghost state variables
                    for gname, gval in inv.ghost_update(cx, lpg).items():
                        gc = self.W.fresh('g_' + gname, gval.sort())      # name the new value (keeps terms pattern-friendly)
                        s3.assume(gc == gval)
                        s3.ghost[gname] = gc
                    self.obligations.append(Obligation(self.target, 'iteration_end_reachable#%d[%s]' % (ordinal, self.pathname(s3)),
                                                       s3.facts, z3.BoolVal(False), s3.versions, kind='cover',
                                                       path=self.pathname(s3), expect='not-unsat'))
                    lp2 = LoopCtx(ordinal, st, seq)
                    lp2.k, lp2.st, lp2.cur = k + 1, s3, cur
                    for name, f in inv.invariant(cx, lp2):
                        self.oblige(s3, 'inv-preserve#%d.%s' % (ordinal, name), f, kind='inv')
                    lp3 = LoopCtx(ordinal, st, seq)
                    lp3.k, lp3.st, lp3.cur, lp3.head = k, s3, cur, sh
                    for name, f in inv.iteration(cx, lp3):
                        self.oblige(s3, 'iter#%d.%s' % (ordinal, name), f, kind='iter')
                elif c3[0] == 'break':
                    s3.warns = st.warns + ['*loop%d' % ordinal] + s3.warns
                    s3.out = st.out + [('*loop', ordinal)] + s3.out
                    s3.err = st.err + [('*loop', ordinal)] + s3.err
                    lpb = LoopCtx(ordinal, st, seq)
                    lpb.k, lpb.st, lpb.cur, lpb.broke = k, s3, cur, True
                    s3.locals['$loop%d' % ordinal] = lpb
                    out.append((s3, None))
                else:
                    # return / raise from inside the loop: function exit
                    s3.warns = st.warns + ['*loop%d' % ordinal] + s3.warns
                    s3.out = st.out + [('*loop', ordinal)] + s3.out
                    s3.err = st.err + [('*loop', ordinal)] + s3.err
                    lpx = LoopCtx(ordinal, st, seq)
                    lpx.k, lpx.st, lpx.cur = k, s3, cur
                    s3.locals['$loop%d' % ordinal] = lpx
                    out.append((s3, c3))
        # --- after the loop
        sa = havoc(st, 'a')
        lpa = LoopCtx(ordinal, st, seq)
        lpa.k, lpa.st = seq.length, sa
        for name, f in inv.invariant(cx, lpa):
            sa.assume(f)
        sa.warns = st.warns + ['*loop%d' % ordinal]
        sa.out = st.out + [('*loop', ordinal)]
        sa.err = st.err + [('*loop', ordinal)]
        sa.trace.append('after-loop%d' % ordinal)
        sa.locals['$loop%d' % ordinal] = lpa
        if self.feasible(sa):
            out.append((sa, None))
        return out

    def witness(self, st, name, sort, body):
        """exists-elimination for ghost code: prove that a witness exists (obligation), then name it"""
        v = z3.Const('w!ex', sort)
        self.oblige(st, 'ghost-witness.%s' % name, z3.Exists([v], body(v)), kind='inv')
        c = self.W.fresh('wit_' + name, sort)
        st.assume(body(c))
        return c

    def havoc_value(self, v, name, kind=None):
        if kind == 'nodelist':
            f = self.W.fresh_fun(name + '_elem', L.I, Node)
            n = self.W.fresh(name + '_len', L.I)
            r = SList(n, lambda k, f=f: SNode(f(k)), desc='havoc ' + name)
            r.fun = f
            r.elemkind = 'node'
            return r
        if kind == 'nodedict':
            return SDict(sym=(self.W.fresh(name + '_keys', z3.ArraySort(Node, L.B)),
                              self.W.fresh(name + '_vals', z3.ArraySort(Node, L.R)),
                              self.W.fresh(name + '_none', z3.ArraySort(Node, L.B))))
        if kind == 'strlist':
            f = self.W.fresh_fun(name + '_elem', L.I, Str)
            n = self.W.fresh(name + '_len', L.I)
            r = SList(n, lambda k, f=f: SStr(f(k)), desc='havoc ' + name)
            r.fun = f
            r.elemkind = 'str'
            return r
        if kind == 'optreal':
            return SReal(self.W.fresh(name, L.R), self.W.fresh(name + '_none', L.B))
        if isinstance(v, SInt):
            return SInt(self.W.fresh(name, L.I))
        if isinstance(v, SNone) and kind is None:
            raise ToolLimit('loop-modified variable %s is None at loop entry (declare its type in the loop spec)' % name)
        if isinstance(v, SReal):
            return SReal(self.W.fresh(name, L.R), self.W.fresh(name + '_none', L.B))
        if isinstance(v, SNode):
            return SNode(self.W.fresh(name, Node))
        if isinstance(v, SStr):
            return SStr(self.W.fresh(name, Str))
        if isinstance(v, SBool):
            return SBool(self.W.fresh(name, L.B))
        if isinstance(v, SNone):
            return v   # stays None only if never assigned a non-None; conservative: tool limit
        if isinstance(v, SDict) and v.sym is not None:
            return SDict(sym=(self.W.fresh(name + '_keys', z3.ArraySort(Node, L.B)),
                              self.W.fresh(name + '_vals', z3.ArraySort(Node, L.R)),
                              self.W.fresh(name + '_none', z3.ArraySort(Node, L.B))))
        if isinstance(v, SList):
            f = self.W.fresh_fun(name + '_elem', L.I, Str)
            n = self.W.fresh(name + '_len', L.I)
            if getattr(v, 'elemkind', None) == 'str':
                l2 = SList(n, lambda k, f=f: SStr(f(k)), desc='havoc ' + name)
                l2.elemkind = 'str'
                return l2
        raise ToolLimit('cannot havoc loop-modified variable %s = %r' % (name, v))
