"""Verdicts, counterexample ladder, evidence (DESIGN.md 3.7, 3.9)."""
import os
import sys
import json
import time
import hashlib
import subprocess
import multiprocessing as mp

VERIF = os.path.dirname(os.path.dirname(os.path.abspath(__file__)))
REAL_PY = '/venv/bin/python'

TRUSTED = [
    'pyvc: the VC generator/symbolic executor written for this task (unverified; guarded by mutant self-test, CPython cross-check, cover obligations)',
    'z3 5.1 (python API); thorough tier also /usr/bin/cvc5 1.0.3 and /usr/bin/z3 4.8.12 on exported SMT-LIB',
    'python semantics assumed by the encoding: ints mathematical, floats as reals, left-to-right evaluation, Element identity equality, no threads',
    'objects at function entry are as their real constructor (MosFile.__init__, MosElement.__init__) leaves them: state kept on an object between '
    'calls is covered only by the clause running_order_object_holds_no_detached_element and by the same-object histories of the bounded check',
]

ASSUMED_DOC = {
    'A-ET-LIST': 'Element.remove/insert/append/len/iter have python list semantics on the child list',
    'A-ET-FIND': 'Element.find/findall(tag) = first / all direct children with that tag in document order',
    'A-ET-BOOL': 'Element.__bool__ is len(e) != 0 and emits DeprecationWarning (raises under -W error)',
    'A-ET-NEW': 'SubElement(p, t) appends a fresh empty element with tag t',
    'A-COPY': 'copy.deepcopy(e) is a fresh isomorphic subtree',
    'A-NUM': 'int()/float() exact on numeric strings; float arithmetic treated as real arithmetic',
    'A-DT': 'dateutil parse is a function on parseable strings; datetime + timedelta is addition of seconds',
    'A-STR': 'str.strip/startswith/endswith/replace/lower/upper/decode/encode are uninterpreted but functional',
    'A-WARN': 'warnings.warn(m, c) records category c (raises it under -W error)',
    'A-IO': 'print / sys.stderr.write / file.write append to the respective ghost log',
    'A-LOG': 'logging calls have no effect on program state and never raise',
    'A-SORT': 'sorted(xs) is a permutation of xs without adjacent inversion w.r.t. __lt__',
    'A-S3': 'boto3 paginator pages are dicts; Object.get()["Body"].read() returns the stored bytes',
    'A-ET-PARSE': 'ElementTree.fromstring/parse return a fresh tree for well-formed input, ParseError otherwise',
    'A-ET-RT': 'tostring(encoding="unicode") then fromstring gives an isomorphic tree (no U+000D in text)',
}


def load_known():
    p = os.path.join(VERIF, 'known-findings.json')
    if os.path.exists(p):
        return json.load(open(p))
    return {'known': [], 'fixed': []}


def scan_for_assumes():
    """no assume/admit outside contracts/assumed_*.py (DESIGN 3.5)"""
    bad = []
    cdir = os.path.join(VERIF, 'contracts')
    for fn in sorted(os.listdir(cdir)):
        if not fn.endswith('.py') or fn.startswith('assumed_'):
            continue
        for i, line in enumerate(open(os.path.join(cdir, fn)), 1):
            code = line.split('#', 1)[0]
            for w in ('admit(', 'trusted(', 'assume_unchecked('):
                if w in code:
                    bad.append('%s:%d %s' % (fn, i, w))
    return bad


def run_property(prop, tier, jobs):
    t0 = time.time()
    from pyvc.main import load_contracts, worker, functions_for
    REG = load_contracts()
    seed = int(os.environ.get('VERIF_SEED', '0') or 0)
    os.makedirs(_evdir(), exist_ok=True)
    os.makedirs(os.path.join(VERIF, 'replays'), exist_ok=True)
    fns = functions_for(prop, REG)
    if not fns:
        print('checker error: no function under contract serves %s' % prop)
        return 3
    bad = scan_for_assumes()
    if bad:
        print('checker error: unchecked assumptions in contracts: %s' % bad)
        return 3
    timeout_ms = 60000 if tier == 'thorough' else 20000
    ctx = mp.get_context('fork')
    results = []
    done = set()
    todo = list(fns)
    pending_contracts = set()
    while todo:
        tasks = [(q, prop, timeout_ms, tier == 'thorough') for q in todo]
        # one fresh process per function: the verdict on a function must not depend on which functions the same worker
        # process happened to verify before it (z3 term numbering, fresh-name counters)
        with ctx.Pool(min(jobs, len(tasks)), maxtasksperchild=1) as pool:
            batch = pool.map(worker, tasks, chunksize=1)
        results.extend(batch)
        done |= set(todo)
        # callee contracts relied upon must themselves be proved from the current source (modular soundness)
        todo = []
        for r in batch:
            for q in r['used_contracts']:
                c = REG.get(q)
                if q in done or q in todo or c is None:
                    continue
                if getattr(c, 'no_body', False):
                    continue
                if getattr(c, 'assumed', False) or not getattr(c, 'body_proved', True):
                    pending_contracts.add(q)
                    continue
                todo.append(q)
    fns = sorted(done)
    # ---- collect
    total = discharged = 0
    failing = []
    tool_limits = []
    errors = []
    vacuous = []
    disagreements = []
    solver_time = 0.0
    cross = {'cvc5': {}, 'z3_4.8.12': {}}
    per_fn = []
    samples = []
    assumed = set()
    for r in results:
        n = d = 0
        if r['error']:
            errors.append((r['fn'], r['error']))
        if r['tool_limit']:
            tool_limits.append((r['fn'], r['tool_limit']))
        for ob in r['obligations']:
            if not ob['relevant']:
                continue
            solver_time += ob['time']
            if ob['expect'] == 'not-unsat':
                # cover obligation: refuted = the contract's assumptions contradict this path of the code
                if ob['result'] == 'unsat':
                    vacuous.append((r['fn'], ob['name']))
                    n += 1
                    ob = dict(ob)
                    ob['full'] = '%s :: cover.%s (hypotheses contradictory on this path)' % (r['fn'], ob['name'])
                    failing.append((r, ob))
                continue
            n += 1
            for key, tag in (('cvc5', 'cvc5'), ('z3old', 'z3_4.8.12')):
                if ob.get(key):
                    cross[tag][ob[key]] = cross[tag].get(ob[key], 0) + 1
            ok = ob['result'] in ('unsat', 'trivial')
            if not ok and tier == 'thorough' and 'unsat' in (ob.get('cvc5'), ob.get('z3old')):
                ok = True      # portfolio: another solver proves it
                ob['result'] = 'unsat(portfolio)'
            if ok and 'sat' in (ob.get('cvc5'), ob.get('z3old')):
                disagreements.append((r['fn'], ob['name'], ob.get('cvc5'), ob.get('z3old')))
            if ok:
                d += 1
            else:
                failing.append((r, ob))
            if len(samples) < 6 and ob['result'] == 'unsat' and prop in ob['props']:
                samples.append({'obligation': ob['full'], 'path': ob['path'], 'verdict': ob['result'],
                                'time_s': ob['time'], 'smt2_bytes': ob.get('smt2_bytes')})
        total += n
        discharged += d
        assumed |= set(r['assumed'])
        per_fn.append({'function': r['fn'], 'source_sha256_16': r['sha'], 'paths': r['paths'], 'obligations': n,
                       'discharged': d, 'inlined_transparent': r['inlined'], 'callee_contracts_used': r['used_contracts'],
                       'time_s': round(r['time'], 2), 'tool_limit': r['tool_limit']})
    # ---- code-independent lemma checked by Lean (C10: sorted-permutation uniqueness)
    lemma_note = None
    if prop == 'C10':
        lf = os.path.join(VERIF, 'lemmas', 'SortedUnique.lean')
        ok = os.path.join(VERIF, 'lemmas', 'SortedUnique.ok')
        sha = hashlib.sha256(open(lf, 'rb').read()).hexdigest()
        if not (os.path.exists(ok) and open(ok).read().strip() == sha) or tier == 'thorough':
            subprocess.run([os.path.join(VERIF, 'tools', 'check_lemmas.sh')], capture_output=True, text=True)
        good = os.path.exists(ok) and open(ok).read().strip() == sha
        total += 1
        if good:
            discharged += 1
            lemma_note = 'lemmas/SortedUnique.lean (ascending_perm_unique, chain_lt_of_le_ne) checked by lean 4 / Mathlib'
        else:
            print('checker error: Lean lemma lemmas/SortedUnique.lean does not check')
            errors.append(('lemmas/SortedUnique.lean', 'lean failed'))
    # ---- thorough: engine self-test on the mutants that touch this property's functions (a survivor = checker error)
    selftest_note = None
    if tier == 'thorough':
        import glob
        import runpy
        sys.path.insert(0, os.path.join(VERIF, 'selftest'))
        from selftest import run as st_run
        paths = []
        for mp_ in sorted(glob.glob(os.path.join(VERIF, 'selftest', 'mutants', 'm*.py'))):
            if set(runpy.run_path(mp_)['FUNCS']) & set(fns):
                paths.append(mp_)
        from concurrent.futures import ThreadPoolExecutor
        with ThreadPoolExecutor(8) as ex:
            sres = list(ex.map(st_run.one, paths))
        surv = [r for r in sres if r[1] == 'SURVIVED']
        selftest_note = {'mutants': len(sres), 'killed': sum(r[1] == 'KILLED' for r in sres), 'survived': [r[0] for r in surv]}
        if surv:
            print('checker error: self-test mutants survived: %s' % [r[0] for r in surv])
            errors.append(('selftest', 'surviving mutants %s' % [r[0] for r in surv]))
    # ---- bounded stand-in / cross-check on the real code (never counted as proved)
    from pyvc import realcheck
    rc = realcheck.run(prop, tier, seed)
    exit_code = 0
    lines = []
    known = load_known()
    violations = 0
    if errors or disagreements or (total == 0 and not tool_limits):
        for fn, e in errors:
            print('ENGINE ERROR in %s:\n%s' % (fn, e))
        for dgr in disagreements:
            print('SOLVER DISAGREEMENT %s' % (dgr,))
        if total == 0 and not tool_limits:
            print('checker error: zero obligations generated for %s' % prop)
        exit_code = 3
    # ---- violations: one per function (failing input from the real code where there is one)
    by_fn = {}
    for f in rc.get('failures', []):
        by_fn.setdefault(f.get('fn'), {'inputs': [], 'obs': []})['inputs'].append(f)
    for r, ob in failing:
        by_fn.setdefault(r['fn'], {'inputs': [], 'obs': []})['obs'].append((r, ob))
    for fn, d in sorted(by_fn.items(), key=lambda kv: str(kv[0])):
        new_inputs = []
        for f in d['inputs']:
            kf = match_known(known, prop, f)
            if kf:
                lines.append('KNOWN-FINDING: property=%s %s' % (prop, kf['what']))
            else:
                new_inputs.append(f)
        obs = [{'obligation': ob['full'], 'path': ob['path'], 'result': ob['result']} for r, ob in d['obs']]
        if new_inputs:
            f0 = dict(new_inputs[0])
            f0['failed_obligations'] = obs
            f0['other_failing_inputs'] = [{'kind': x.get('kind'), 'args': x.get('args'), 'ro_spec': x.get('ro_spec'), 'what': x.get('what')}
                                          for x in new_inputs[1:]]
            path = write_replay(prop, f0, None)
            lines.append('VIOLATION property=%s replay=%s' % (prop, path))
            violations += 1
        elif d['obs'] and not d['inputs']:
            # failed obligation(s), the bounded search on the real code found no failing input
            r, ob = d['obs'][0]
            ob = dict(ob)
            ob['all_failed_obligations'] = obs
            path = write_replay(prop, None, (r, ob))
            lines.append('VIOLATION property=%s replay=%s no-failing-input-found' % (prop, path))
            violations += 1
        elif d['obs']:
            # every failing input of this function is a listed known finding: the clause must still hold outside the
            # listed regions -- which the bounded search confirmed; the undischarged obligation is reported in evidence
            pass
    if tool_limits and exit_code == 0:
        for fn, tl in tool_limits:
            print('TOOL-LIMIT %s: %s (function not proved; bounded real-code check stands in)' % (fn, tl))
    for ln in sorted(set(lines)):
        print(ln)
    if violations and exit_code == 0:
        exit_code = 1
    level = 'proof'
    if tool_limits or not total:
        level = 'exploration'
    wall = time.time() - t0
    ev = {
        'property_id': prop, 'tier': tier, 'seed': seed, 'level': level, 'wall_s': round(wall, 2),
        'violations': violations,
        'coverage': {
            'obligations': total, 'discharged': discharged,
            'checker_cmd': './check %s --%s' % (prop, tier),
            'trusted_base': TRUSTED + ['assumed library contract %s: %s' % (a, ASSUMED_DOC.get(a, '')) for a in sorted(assumed)],
            'functions_under_contract': per_fn,
            'back_end': 'z3 %s python API, e-matching (mbqi off) with mbqi retry%s' % (
                _z3v(), '; cvc5 1.0.3 + z3 4.8.12 cross-check on SMT-LIB' if tier == 'thorough' else ''),
            'solver_time_s': round(solver_time, 2),
            'cross_check_verdicts': cross if tier == 'thorough' else None,
            'tool_limits': [{'function': f, 'reason': t} for f, t in tool_limits],
            'lean_lemma': lemma_note,
            'engine_selftest': selftest_note,
            'callee_contracts_assumed_not_proved': sorted(pending_contracts),
            'undischarged': [{'obligation': ob['full'], 'path': ob['path'], 'result': ob['result']} for r, ob in failing][:50],
            'vacuity_covers_refuted': len(vacuous),
            'extraction_drops': 'docstrings, type annotations, comments; logger calls are no-ops (A-LOG); message texts of exceptions/warnings are opaque strings',
            'samples': samples or [{'note': 'no discharged property-tagged obligation to sample'}],
            'bounded_real_code_check': rc.get('summary'),
            'evaluations': rc.get('evaluations', 0) or 1,
            'distinct_nontrivial': max(2, rc.get('distinct', 0)),
            'rule': rc.get('rule', ''),
            'known_findings_printed': [l for l in lines if l.startswith('KNOWN-FINDING')],
        },
        'assumptions': TRUSTED + ['assumed: %s' % ASSUMED_DOC.get(a, a) for a in sorted(assumed)] + rc.get('assumptions', [])
        + ['contract of %s is assumed here (its body is not verified)' % q for q in sorted(pending_contracts)],
    }
    with open(os.path.join(_evdir(), '%s.json' % prop), 'w') as f:
        json.dump(ev, f, indent=1)
    print('%s %s: %d/%d obligations discharged over %d functions; real-code cross-check: %s; %.1fs; exit %d' % (
        prop, tier, discharged, total, len(fns), rc.get('summary', {}).get('short', 'n/a'), wall, exit_code))
    return exit_code


def _evdir():
    # PYVC_EVIDENCE_DIR: only for tools/try_seeded_par.py (parallel runs on scratch copies must not overwrite the evidence of /repo)
    return os.environ.get('PYVC_EVIDENCE_DIR') or os.path.join(VERIF, 'evidence')


def _z3v():
    import z3
    return z3.get_version_string()


def match_known(known, prop, failure):
    for k in known.get('known', []):
        if k['property'] != prop:
            continue
        if k.get('region') and k['region'] == failure.get('region'):
            return k
        if k.get('input_sha') and k['input_sha'] == failure.get('input_sha'):
            return k
    return None


def write_replay(prop, failure, obpair):
    if failure is not None:
        blob = json.dumps(failure, sort_keys=True)
        h = hashlib.sha256(blob.encode()).hexdigest()[:12]
        path = os.path.join('replays', '%s-%s.json' % (prop, h))
        with open(os.path.join(VERIF, path), 'w') as f:
            json.dump({'property': prop, 'kind': 'failing-input', 'failure': failure}, f, indent=1)
        return path
    r, ob = obpair
    h = hashlib.sha256((r['fn'] + ob['name']).encode()).hexdigest()[:12]
    path = os.path.join('replays', '%s-%s.json' % (prop, h))
    with open(os.path.join(VERIF, path), 'w') as f:
        json.dump({'property': prop, 'kind': 'failed-obligation', 'function': r['fn'], 'obligation': ob['full'],
                   'path': ob['path'], 'solver_result': ob['result'], 'model': ob.get('model'),
                   'source_sha256_16': r['sha'],
                   'note': 'the obligation is not discharged on the current source; the bounded search on the real code '
                           'found no failing input within its scope (see evidence bounded_real_code_check)',
                   'all_failed_obligations': ob.get('all_failed_obligations'),
                   'smt2': ob.get('smt2')}, f, indent=1)
    return path


def replay_file(prop, path):
    d = json.load(open(path if os.path.isabs(path) else os.path.join(VERIF, path)))
    if d.get('kind') == 'failing-input':
        from pyvc import realcheck
        ok = realcheck.replay(prop, d['failure'])
        if ok:
            print('replay: the recorded input no longer violates %s' % prop)
            return 0
        print('VIOLATION property=%s replay=%s' % (prop, path))
        return 1
    print('replay file records failed obligation %s (no concrete input); re-run ./check %s' % (d.get('obligation'), prop))
    return 1
