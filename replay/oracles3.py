"""Bounded real-code oracles for the read accessors: C15, C16, C17 (reference computed directly from the XML)."""
import json
import hashlib
import itertools
import warnings
import datetime
import xml.etree.ElementTree as ET
from dateutil.parser import parse as dtparse

from mosromgr.mostypes import MosFile, RunningOrder
from mosromgr.moselements import Story, Item
from scenarios import ENV, msg


def _sha(s):
    return hashlib.sha256(s.encode()).hexdigest()[:16]


DUR_KINDS = ['none', 'sd', 'tt', 'mt', 'ttmt', 'nopayload', 'sd+tt', 'zero']
PARAS = ['plain text', '', None, '  padded  ', '(technical note)', '<angle note>', '(half', 'half)', ' (spaced note) ', 'Ünïcödé ☃', '   ',
         '(mixed one>', '<mixed two)', '\t', ' \n ']


def story(sid, dur='sd', started=None, ended=None, items=(), paras=(), n=0):
    pl = ''
    if dur == 'sd':
        pl += '<StoryDuration>%d</StoryDuration>' % (10 + n)
    if dur in ('tt', 'ttmt', 'sd+tt'):
        pl += '<TextTime>%d</TextTime>' % (3 + n)
    if dur in ('mt', 'ttmt'):
        pl += '<MediaTime>%s</MediaTime>' % (4.5 + n)
    if dur == 'sd+tt':
        pl = '<StoryDuration>%d</StoryDuration>' % (20 + n) + pl
    if dur == 'zero':
        pl += '<TextTime>0</TextTime><MediaTime>0</MediaTime>'
    if started:
        pl += '<StoryStarted>%s</StoryStarted>' % started
    if ended:
        pl += '<StoryEnded>%s</StoryEnded>' % ended
    if dur == 'none' and not started and not ended:
        md = ''
    elif dur == 'nopayload':
        md = '<mosExternalMetadata><mosSchema>s</mosSchema></mosExternalMetadata>'
    else:
        md = '<mosExternalMetadata><mosSchema>s</mosSchema><mosPayload>%s</mosPayload></mosExternalMetadata>' % pl
    body = ''
    for k, p in enumerate(paras):
        body += '<p/>' if p is None else '<p>%s</p>' % p.replace('<', '&lt;').replace('>', '&gt;')
        if k < len(items):
            body += items[k]
    for it in items[len(paras):]:
        body += it
    slug = '<storySlug>slug %s</storySlug>' % sid if n % 2 == 0 else ''
    return '<story><storyID>%s</storyID>%s%s%s<other>x</other></story>' % (sid, slug, body, md)


def item(iid, full=True, note=None):
    extra = ''
    if full:
        extra = '<itemSlug>is %s</itemSlug><objID>o%s</objID><mosID>m%s</mosID><objType>VIDEO</objType>' % (iid, iid, iid)
    md = ''
    if note is not None:
        md = ('<mosExternalMetadata><mosPayload><studioCommands><studioCommand type="note"><text>%s</text></studioCommand>'
              '</studioCommands></mosPayload></mosExternalMetadata>' % note)
    return '<item><itemID>%s</itemID>%s%s</item>' % (iid, extra, md)


def ro_doc(stories, edstart='2020-01-01T10:00:00'):
    es = '' if edstart is None else '<roEdStart>%s</roEdStart>' % edstart
    return ENV % (1, '<roCreate><roID>RO1</roID><roSlug>slug</roSlug>%s%s</roCreate>' % (es, ''.join(stories)))


# ---- reference, straight from the XML
def ref_duration(s):
    md = s.find('mosExternalMetadata')
    pl = md.find('mosPayload') if md is not None else None
    if pl is None:
        return None
    if pl.find('StoryDuration') is not None:
        return float(pl.find('StoryDuration').text)
    tt, mt = pl.find('TextTime'), pl.find('MediaTime')
    if tt is None and mt is None:
        return None
    return (float(tt.text) if tt is not None else 0) + (float(mt.text) if mt is not None else 0)


def ref_time(s, tag):
    md = s.find('mosExternalMetadata')
    pl = md.find('mosPayload') if md is not None else None
    if pl is None or pl.find(tag) is None:
        return None
    return dtparse(pl.find(tag).text)


def ref_script(s):
    out = []
    for p in s.findall('p'):
        t = p.text
        if not t or not t.strip():
            continue
        t2 = t.strip()
        if (t2.startswith('(') and t2.endswith(')')) or (t2.startswith('<') and t2.endswith('>')):
            continue
        out.append(t2)
    return out


def check_ro(ro, viol):
    """compare every documented accessor with a direct read of ro.xml"""
    base = ro.xml.find('roCreate')
    sts = base.findall('story')

    def acc(name, fn):
        try:
            return True, fn()
        except Exception as e:
            viol.append(('C15', '%s raised %s: %s' % (name, type(e).__name__, e)))
            return False, None

    for name, fn, exp in (('ro.ro_id', lambda: ro.ro_id, base.find('roID').text if base.find('roID') is not None else None),
                          ('ro.ro_slug', lambda: ro.ro_slug, base.find('roSlug').text if base.find('roSlug') is not None else None),
                          ('ro.message_id', lambda: ro.message_id, int(ro.xml.find('messageID').text)),
                          ('ro.base_tag', lambda: ro.base_tag, base)):
        o0, v0 = acc(name, fn)
        if o0 and not (v0 is exp if name == 'ro.base_tag' else v0 == exp):
            viol.append(('C15', '%s is %r, the XML says %r' % (name, v0, exp)))
    ok, stories = acc('ro.stories', lambda: ro.stories)
    es = base.find('roEdStart')
    ro_start = dtparse(es.text) if es is not None and es.text is not None else None
    ok2, v = acc('ro.start_time', lambda: ro.start_time)
    if ok2 and v != ro_start:
        viol.append(('C16', 'ro.start_time %s, roEdStart says %s' % (v, ro_start)))
    durs = [ref_duration(s) for s in sts]
    all_dur = all(d is not None for d in durs)
    ok2, v = acc('ro.duration', lambda: ro.duration)
    if ok2:
        exp = sum(durs) if all_dur else None
        if v != exp:
            viol.append(('C16', 'ro.duration %s, sum of story durations %s' % (v, exp)))
    if ok:
        if [s.xml for s in stories] != sts:
            viol.append(('C15', 'ro.stories does not list the story elements in document order'))
        prev_end = None
        for k, (so, sx) in enumerate(zip(stories, sts)):
            for name, fn, exp in (('id', lambda: so.id, sx.find('storyID').text),
                                  ('slug', lambda: so.slug, sx.find('storySlug').text if sx.find('storySlug') is not None else None)):
                o2, v = acc('story[%d].%s' % (k, name), fn)
                if o2 and v != exp:
                    viol.append(('C15', 'story[%d].%s is %r, the XML says %r' % (k, name, v, exp)))
            o2, v = acc('story[%d].duration' % k, lambda: so.duration)
            if o2 and v != durs[k]:
                viol.append(('C16', 'story[%d].duration %s, expected %s' % (k, v, durs[k])))
            o2, off = acc('story[%d].offset' % k, lambda: so.offset)
            if o2 and all_dur and off != sum(durs[:k]):
                viol.append(('C16', 'story[%d].offset %s, sum of the durations before it %s' % (k, off, sum(durs[:k]))))
            exp_start = ref_time(sx, 'StoryStarted')
            if exp_start is None and ro_start is not None and all_dur:
                exp_start = ro_start + datetime.timedelta(seconds=sum(durs[:k]))
            o2, st_ = acc('story[%d].start_time' % k, lambda: so.start_time)
            if o2 and (all_dur or ref_time(sx, 'StoryStarted') is not None) and st_ != exp_start:
                viol.append(('C16', 'story[%d].start_time %s, expected %s' % (k, st_, exp_start)))
            exp_end = ref_time(sx, 'StoryEnded')
            if exp_end is None and exp_start is not None and durs[k] is not None:
                exp_end = exp_start + datetime.timedelta(seconds=durs[k])
            o2, en_ = acc('story[%d].end_time' % k, lambda: so.end_time)
            if o2 and (all_dur or ref_time(sx, 'StoryEnded') is not None) and en_ != exp_end:
                viol.append(('C16', 'story[%d].end_time %s, expected %s' % (k, en_, exp_end)))
            if k == len(sts) - 1:
                o3, re_ = acc('ro.end_time', lambda: ro.end_time)
                if o3 and o2 and re_ != en_:
                    viol.append(('C16', 'ro.end_time %s differs from the end of the last story %s' % (re_, en_)))
            o2, its = acc('story[%d].items' % k, lambda: so.items)
            if o2:
                ix = sx.findall('item')
                if [i.xml for i in its] != ix:
                    viol.append(('C15', 'story[%d].items does not list the item elements in document order' % k))
                for i, x in zip(its, ix):
                    for name, tag in (('id', 'itemID'), ('slug', 'itemSlug'), ('type', 'objType'), ('object_id', 'objID'), ('mos_id', 'mosID')):
                        o4, v = acc('item.%s' % name, lambda: getattr(i, name))
                        exp = x.find(tag).text if x.find(tag) is not None else None
                        if o4 and v != exp:
                            viol.append(('C15', 'item.%s is %r, the XML says %r' % (name, v, exp)))
                    o4, v = acc('item.note', lambda: i.note)
                    md_ = x.find('mosExternalMetadata')
                    pl_ = md_.find('mosPayload') if md_ is not None else None
                    nt = next((e for e in pl_.iter('studioCommand') if e is not pl_ and e.get('type') == 'note'), None) if pl_ is not None else None
                    exp = nt.find('text').text if nt is not None and nt.find('text') is not None else None
                    if o4 and v != exp:
                        viol.append(('C15', 'item.note is %r, the XML says %r' % (v, exp)))
            o2, sc = acc('story[%d].script' % k, lambda: so.script)
            if o2 and sc != ref_script(sx):
                viol.append(('C17', 'story[%d].script %r, expected %r' % (k, sc, ref_script(sx))))
            o2, bd = acc('story[%d].body' % k, lambda: so.body)
            if o2:
                exp = [c for c in sx if c.tag in ('item', 'p')]
                got_ok = len(bd) == len(exp) and all((isinstance(b, Item) and b.xml is c) if c.tag == 'item' else (b == (c.text or ''))
                                                     for b, c in zip(bd, exp))
                if not got_ok:
                    viol.append(('C17', 'story[%d].body does not list paragraphs and items in document order' % k))
        o2, sc = acc('ro.script', lambda: ro.script)
        if o2 and sc != [x for s in sts for x in ref_script(s)]:
            viol.append(('C17', 'ro.script is not the concatenation of the story scripts'))
        o2, bd = acc('ro.body', lambda: ro.body)
        if o2:
            exp = [c for s in sts for c in s if c.tag in ('item', 'p')]
            if len(bd) != len(exp):
                viol.append(('C17', 'ro.body is not the concatenation of the story bodies'))
    if not sts:
        o3, re_ = acc('ro.end_time', lambda: ro.end_time)


def gen_ros(tier, rng):
    T0, T1 = '2020-01-01T11:00:00', '2020-01-01T11:05:00'
    out = []
    # single stories: every duration kind x explicit times
    for d in DUR_KINDS:
        for st_, en_ in ((None, None), (T0, None), (None, T1), (T0, T1)):
            for es in ('2020-01-01T10:00:00', None):
                out.append(ro_doc([story('A', d, st_, en_, n=1)], es))
    # sequences of stories with mixed durations
    kinds = ['sd', 'ttmt', 'zero', 'none'] if tier == 'quick' else DUR_KINDS
    for n in (0, 2, 3):
        for combo in itertools.product(kinds, repeat=n):
            if n == 3 and tier == 'quick' and rng.random() < 0.5:
                continue
            sts = [story('S%d' % k, d, started=(T0 if (k == 1 and n == 3) else None), n=k) for k, d in enumerate(combo)]
            out.append(ro_doc(sts))
    # duplicate and blank story ids
    out.append(ro_doc([story('A', 'sd', n=1), story('B', 'sd', n=2), story('A', 'sd', n=4)]))
    out.append(ro_doc([story('A', 'sd', n=1), '<story><storyID/></story>', story('B', 'tt', n=2)]))
    # bodies
    items = [item('1'), item('2', full=False), item('3', note='a note'), item('4', full=False, note='n2'),
             '<item><itemID>5</itemID><mosExternalMetadata><mosPayload><other>no note here</other></mosPayload></mosExternalMetadata></item>',
             '<item><itemID>6</itemID><mosExternalMetadata><mosSchema>s</mosSchema></mosExternalMetadata></item>']
    for k in range(0, len(PARAS), 3):
        out.append(ro_doc([story('A', 'sd', items=items[:2] + items[4:], paras=PARAS[k:k + 3]), story('B', 'tt', items=items[2:], paras=PARAS[k + 1:k + 5], n=3)]))
    out.append(ro_doc([story('A', 'sd', items=items, paras=PARAS)]))
    # <p> elements that are not children of the story (inside item metadata, inside other story children): never script or body
    deep = ('<item><itemID>7</itemID><mosExternalMetadata><mosPayload><p>nested in item metadata</p><x><p>deeper</p></x></mosPayload>'
            '</mosExternalMetadata></item>')
    st2 = story('B', 'tt', items=[deep], paras=['spoken'], n=2).replace('<other>x</other>', '<other><p>nested in other</p></other>')
    out.append(ro_doc([story('A', 'sd', items=[deep, items[0]], paras=['one', 'two', '(note)']), st2]))
    # several studioCommands in one item: the note is the one of type "note", wherever it sits
    def cmds(*kinds):
        return ('<item><itemID>c%d</itemID><mosExternalMetadata><mosPayload><studioCommands>%s</studioCommands></mosPayload></mosExternalMetadata></item>' % (
            len(kinds), ''.join('<studioCommand type="%s"><text>%s text</text></studioCommand>' % (k, k) for k in kinds)))
    out.append(ro_doc([story('A', 'sd', items=[cmds('camera', 'note'), cmds('note', 'camera'), cmds('camera', 'light', 'note', 'x'), cmds('camera')],
                             paras=['p'])]))
    return out


HISTORY = [('StoryAppend', dict(new=['N1'])), ('StorySend', dict(target='S0')), ('StoryReplace', dict(target='S1', new=['R1', 'R2'])),
           ('StoryMove', dict(src='S0', target=None)), ('StoryDelete', dict(ids=['S1']))]


def search_accessors(prop, tier, rng):
    n = 0
    failures = []
    docs = gen_ros(tier, rng)
    seen = set()
    for doc in docs:
        for stage, label in enumerate(('initial', 'same object after %d merges' % len(HISTORY), 'same object after roReplace')):
            n += 1
            viol = []
            try:
                ro = _acc_state(doc, stage)
                d = str(ro)
                check_ro(ro, viol)
            except Exception as e:
                d = doc
                viol.append(('C15', 'harness: %s %s' % (type(e).__name__, e)))
            for p, what in viol:
                if p != prop:
                    continue
                sig = what.split(' ')[0] + what[-20:]
                if sig in seen:
                    continue
                seen.add(sig)
                if len(failures) < 10:
                    failures.append({'property': prop, 'fn': 'mosromgr.moselements', 'ro': d, 'initial': doc, 'stage': stage, 'state': label,
                                     'what': '%s (%s)' % (what, label), 'input_sha': _sha(doc + str(stage)),
                                     'api': 'ro = RunningOrder.from_string(initial); read accessors; merge the history of that stage into the '
                                            'same object; compare every documented accessor with a direct read of ro.xml'})
    return {'evaluations': n, 'distinct': len(docs) * 3, 'failures': failures,
            'rule': 'running orders over every duration kind x explicit start/end x roEdStart present/absent, mixed sequences of 0..3 stories, duplicate / blank '
                    'story ids, item fields present/absent, 11 paragraph shapes; nested <p> below items and metadata; each also on the same object after a 5-merge history and after a further roReplace (accessors read before every step); oracle = direct read of the XML',
            'summary': {'short': '%d running-order states, %d failing' % (n, len(failures)), 'bounded': True}, 'assumptions': []}


def _acc_state(doc, stage):
    """the RunningOrder object reached from doc: stage 0 fresh, 1 after HISTORY, 2 after a further roReplace; the accessors are read
    before every merge so that anything an accessor remembers is exposed when the XML changes underneath it"""
    ro = RunningOrder.from_string(doc)
    with warnings.catch_warnings():
        warnings.simplefilter('ignore')
        if stage >= 1:
            check_ro(ro, [])
            for kind, a in HISTORY:
                try:
                    ro += MosFile.from_string(msg(kind, **a)[0])
                except Exception:
                    pass
        if stage >= 2:
            check_ro(ro, [])
            ro += MosFile.from_string(msg('RunningOrderReplace', new=['X1', 'X2'])[0])
    return ro


def search_C15(tier, rng): return search_accessors('C15', tier, rng)
def search_C16(tier, rng): return search_accessors('C16', tier, rng)
def search_C17(tier, rng): return search_accessors('C17', tier, rng)


def _replay_acc(prop, f):
    viol = []
    if 'initial' in f:
        check_ro(_acc_state(f['initial'], f['stage']), viol)
    else:
        check_ro(RunningOrder.from_string(f['ro']), viol)
    return any(p == prop for p, _ in viol)


replay_C15 = replay_C16 = replay_C17 = _replay_acc


# ------------------------------------------------------------------ C04 carried content
def canon(e, top=True):
    return (e.tag, tuple(sorted(e.attrib.items())), e.text, None if top else e.tail, tuple(canon(c, False) for c in e))


RICH = ('<mosExternalMetadata a="1" b="x&amp;y"><mosSchema>s</mosSchema><mosPayload><k n="2">v &lt;1&gt; &amp; "q"</k>tail<deep><d1><d2 z="9">é☃</d2></d1></deep>'
        '<StoryDuration>12</StoryDuration></mosPayload></mosExternalMetadata>')


def rich_story(sid, tag='story'):
    return ('<%s x="1"><storyID>%s</storyID><storySlug>s &amp; %s</storySlug><p>one</p><item y="2"><itemID>i1</itemID><objID>o</objID>'
            '<mosExternalMetadata><mosPayload><n>1</n></mosPayload></mosExternalMetadata></item><p/>mixed<item><itemID>i2</itemID></item>%s</%s>'
            % (tag, sid, sid, RICH, tag))


def rich_item(iid):
    return '<item k="v"><itemID>%s</itemID><itemSlug>a&lt;b</itemSlug><objPaths><objPath techDescription="x">p</objPath></objPaths>tail text</item>' % iid


def c04_cases():
    R = '<roID>RO1</roID>'
    base = dict(stories=['A', 'B', 'C'], meta_layout='all', items={'A': ['1', '2']})
    for n in (1, 2, 3):
        new = ['N%d' % i for i in range(n)]
        ss = ''.join(rich_story(s) for s in new)
        yield 'StoryAppend', base, ENV % (5, '<roStoryAppend>%s%s</roStoryAppend>' % (R, ss)), ('stories', new)
        yield 'StoryInsert', base, ENV % (5, '<roStoryInsert>%s<storyID>B</storyID>%s</roStoryInsert>' % (R, ss)), ('stories', new)
        yield 'StoryReplace', base, ENV % (5, '<roStoryReplace>%s<storyID>B</storyID>%s</roStoryReplace>' % (R, ss)), ('stories', new)
        for op in ('INSERT', 'REPLACE'):
            yield 'EAStory' + op, base, ENV % (5, '<roElementAction operation="%s">%s<element_target><storyID>B</storyID></element_target>'
                                               '<element_source>%s</element_source></roElementAction>' % (op, R, ss)), ('stories', new)
        its = ['n%d' % i for i in range(n)]
        ii = ''.join(rich_item(i) for i in its)
        yield 'ItemInsert', base, ENV % (5, '<roItemInsert>%s<storyID>A</storyID><itemID>2</itemID>%s</roItemInsert>' % (R, ii)), ('items', 'A', its)
        yield 'ItemReplace', base, ENV % (5, '<roItemReplace>%s<storyID>A</storyID><itemID>2</itemID>%s</roItemReplace>' % (R, ii)), ('items', 'A', its)
        for op in ('INSERT', 'REPLACE'):
            yield 'EAItem' + op, base, ENV % (5, '<roElementAction operation="%s">%s<element_target><storyID>A</storyID><itemID>1</itemID></element_target>'
                                              '<element_source>%s</element_source></roElementAction>' % (op, R, ii)), ('items', 'A', its)
    # roStorySend: storyBody anywhere among the children
    body = '<storyBody>lead<p>a</p><storyItem q="1"><itemID>s1</itemID><storyItem><itemID>nested</itemID></storyItem></storyItem>t1<p>(n)</p><storyItem><itemID>s2</itemID></storyItem></storyBody>'
    for layout in ('%(id)s%(slug)s%(body)s%(md)s', '%(id)s%(body)s%(slug)s%(md)s', '%(body)s%(id)s%(slug)s%(md)s', '%(id)s%(slug)s%(md)s%(body)s'):
        inner = layout % dict(id='<storyID>B</storyID>', slug='<storySlug>re</storySlug>', body=body, md=RICH)
        yield 'StorySend', base, ENV % (5, '<roStorySend>%s%s</roStorySend>' % (R, inner)), ('send', 'B')
    # empty / whitespace-only / single-child story bodies (storyBody itself is a required tag of roStorySend: schema shape)
    for b2 in ('<storyBody/>', '<storyBody></storyBody>', '<storyBody>  \n </storyBody>', '<storyBody><p>only</p></storyBody>',
               '<storyBody><storyItem><itemID>s1</itemID></storyItem></storyBody>'):
        inner = '<storyID>B</storyID><storySlug>re</storySlug>%s%s' % (b2, RICH)
        yield 'StorySend', base, ENV % (5, '<roStorySend>%s%s</roStorySend>' % (R, inner)), ('send', 'B')
    yield 'RunningOrderReplace', base, ENV % (5, '<roReplace>%s<roSlug>new</roSlug>%s%s</roReplace>' % (R, rich_story('X'), rich_story('Y'))), ('replace',)
    for mdbody in ('<roSlug>z &amp; z</roSlug>', '<roChannel a="1">c</roChannel><roSlug>z</roSlug>', RICH,
                   '<mosExternalMetadata><mosSchema>http://x/ro</mosSchema><mosPayload><a>2</a></mosPayload></mosExternalMetadata>'):
        yield 'MetaDataReplace', base, ENV % (5, '<roMetadataReplace>%s%s</roMetadataReplace>' % (R, mdbody)), ('meta',)


def check_c04(kind, ro_spec, mx, what):
    from scenarios import ro_xml
    ro = RunningOrder.from_string(ro_xml(**ro_spec))
    m = MosFile.from_string(mx)
    mroot = ET.fromstring(mx)
    mb = [c for c in mroot if c.tag.startswith('ro')][0]
    with warnings.catch_warnings():
        warnings.simplefilter('ignore')
        ro += m
    base = ro.xml.find('roCreate')
    viol = []
    if what[0] == 'stories':
        src = mb.find('element_source') if mb.find('element_source') is not None else mb
        sent = {s.find('storyID').text: s for s in src.findall('story')}
        for sid in what[1]:
            got = [s for s in base.findall('story') if s.find('storyID').text == sid]
            if len(got) != 1 or canon(got[0]) != canon(sent[sid]):
                viol.append('carried story %s did not arrive with the content that was sent' % sid)
    elif what[0] == 'items':
        src = mb.find('element_source') if mb.find('element_source') is not None else mb
        sent = {s.find('itemID').text: s for s in src.findall('item')}
        st_ = [s for s in base.findall('story') if s.find('storyID').text == what[1]][0]
        for iid in what[2]:
            got = [i for i in st_.findall('item') if i.find('itemID').text == iid]
            if len(got) != 1 or canon(got[0]) != canon(sent[iid]):
                viol.append('carried item %s did not arrive with the content that was sent' % iid)
    elif what[0] == 'send':
        got = [s for s in base.findall('story') if s.find('storyID').text == what[1]][0]
        exp = []
        for c in mb:
            if c.tag == 'storyBody':
                for b in c:
                    cb = list(canon(b, False))
                    if b.tag == 'storyItem':
                        cb[0] = 'item'
                    exp.append(tuple(cb))
            else:
                exp.append(canon(c, False))
        if got.tag != 'story' or [canon(c, False) for c in got] != exp:
            viol.append('re-sent story is not the sent story with the storyBody children spliced in place')
    elif what[0] == 'replace':
        exp = list(canon(mb))
        exp[0] = 'roCreate'
        if canon(base) != tuple(exp):
            viol.append('running order content after roReplace differs from the sent one')
    elif what[0] == 'meta':
        for c in mb:
            if not any(canon(x) == canon(c) for x in base):
                viol.append('carried metadata element <%s> is not present with the sent content' % c.tag)
    return viol


def search_C04(tier, rng):
    n = 0
    failures = []
    for kind, ro_spec, mx, what in c04_cases():
        n += 1
        try:
            viol = check_c04(kind, ro_spec, mx, what)
        except Exception as e:
            viol = ['harness: %s %s' % (type(e).__name__, e)]
        for w in viol:
            if len(failures) < 10:
                failures.append({'property': 'C04', 'fn': 'mosromgr.mostypes.%s.merge' % kind, 'kind': kind, 'ro_spec': ro_spec, 'msg': mx, 'expect': list(what),
                                 'what': '%s: %s' % (kind, w), 'input_sha': _sha(mx), 'api': 'ro += MosFile.from_string(msg)'})
    return {'evaluations': n, 'distinct': n, 'failures': failures,
            'rule': 'every carrying message type with 1..3 carried elements with nested metadata, attributes, mixed text/tails, markup-significant and non-ASCII '
                    'characters; roStorySend with storyBody at 4 positions and a nested storyItem; roReplace; roMetadataReplace; oracle = structural comparison with the message text',
            'summary': {'short': '%d payload merges compared structurally, %d failing' % (n, len(failures)), 'bounded': True}, 'assumptions': []}


def replay_C04(prop, f):
    return bool(check_c04(f['kind'], f['ro_spec'], f['msg'], tuple(f['expect'])))


# ------------------------------------------------------------------ C14 serialise / read back over reachable states
SPECIAL = ['plain', 'a &amp; b &lt;c&gt; "q" \'s\'', 'é☃ 𝄞 non-BMP', '  spaces  ', 'line1&#10;line2', 'cr&#13;here', 'tab&#9;x', ']]&gt; cdata-end', '']


def c14_histories(tier, rng):
    from scenarios import ro_xml
    kinds = [('StoryAppend', dict(new=['N1'])), ('StoryInsert', dict(target='B', new=['N2'])), ('StoryReplace', dict(target='B', new=['R1'])),
             ('StoryDelete', dict(ids=['C'])), ('StoryMove', dict(src='A', target=None)), ('StorySend', dict(target='A')),
             ('ItemInsert', dict(story='A', target='1', new=['n1'])), ('ItemDelete', dict(story='A', ids=['2'])),
             ('EAStorySwap', dict(ids=['A', 'B'])), ('EAItemMove', dict(story='A', target=None, ids=['1'])),
             ('MetaDataReplace', dict(body='<roSlug>%s</roSlug>')), ('RunningOrderReplace', dict(new=['A', 'B', 'C'])),
             ('ReadyToAir', {}), ('RunningOrderEnd', {})]
    nseq = 60 if tier == 'quick' else 400
    for i in range(nseq):
        L_ = rng.randint(0, 6)
        seq = [rng.choice(kinds) for _ in range(L_)]
        sp = rng.choice(SPECIAL)
        yield sp, seq


def check_c14(sp, seq):
    from scenarios import ro_xml
    doc = ro_xml(['A', 'B', 'C'], items={'A': ['1', '2', '3']}, meta_layout='all').replace('the slug', sp)
    ro = RunningOrder.from_string(doc)
    mid0, roid0 = ro.message_id, ro.ro_id
    viol = []
    states = 0
    for kind, a in [(None, None)] + list(seq):
        if kind is not None:
            a = dict(a)
            if kind == 'MetaDataReplace':
                a['body'] = a['body'] % sp
            try:
                with warnings.catch_warnings():
                    warnings.simplefilter('ignore')
                    ro += MosFile.from_string(msg(kind, **a)[0])
            except Exception:
                pass
        states += 1
        s1 = str(ro)
        try:
            back = MosFile.from_string(s1)
        except Exception as e:
            viol.append('serialised running order is not readable: %s' % type(e).__name__)
            continue
        if type(back).__name__ != 'RunningOrder' or str(back) != s1:
            viol.append('running order after %s does not read back to the same serialisation' % (kind or 'parse'))
        elif back.completed != ro.completed or [s.id for s in back.stories] != [s.id for s in ro.stories] or \
                [[i.id for i in s.items] for s in back.stories] != [[i.id for i in s.items] for s in ro.stories]:
            viol.append('read-back running order differs in stories / items / completed flag')
        root = ro.xml
        if len(root.findall('roCreate')) != 1 or len(root.findall('mosromgrmeta')) > 1 or ro.message_id != mid0 or ro.ro_id != roid0:
            viol.append('envelope changed: roCreate x%d, mosromgrmeta x%d, messageID %s, roID %s' % (
                len(root.findall('roCreate')), len(root.findall('mosromgrmeta')), ro.message_id, ro.ro_id))
    return viol, states


def search_C14(tier, rng):
    n = 0
    failures = []
    for sp, seq in c14_histories(tier, rng):
        viol, states = check_c14(sp, seq)
        n += states
        for w in viol[:1]:
            if len(failures) < 8:
                failures.append({'property': 'C14', 'fn': 'mosromgr.mostypes.MosFile.__str__', 'special_text': sp, 'history': [[k, a] for k, a in seq],
                                 'what': '%s (text %r, history %s)' % (w, sp, [k for k, _ in seq]), 'input_sha': _sha(json.dumps([sp, [k for k, _ in seq]])),
                                 'region': 'text_contains_CR' if '&#13;' in sp and 'read back' in w else None,
                                 'api': 'str(ro) / MosFile.from_string(str(ro)) after each merge of the history'})
    # conformance of the assumed round trip (A-ET-RT) on seeded random trees
    n2, bad = 0, 0
    for i in range(200 if tier == 'quick' else 2000):
        depth = rng.randint(1, 4)

        def mk(d):
            e = ET.Element(rng.choice(['a', 'b', 'story', 'x1']), {k: rng.choice(['v', 'é', 'a&b', '<', '"', '1\r2']) for k in rng.sample(['p', 'q', 'r'], rng.randint(0, 2))})
            e.text = rng.choice([None, 't', ' x ', 'é☃', '&<>"', 'a\rb', 'l1\nl2', '\t'])
            for _ in range(rng.randint(0, 3) if d > 0 else 0):
                c = mk(d - 1)
                c.tail = rng.choice([None, 'tail', '\r', ' '])
                e.append(c)
            return e
        t = mk(depth)
        s = ET.tostring(t, encoding='unicode').replace('\r', '&#13;')
        n2 += 1
        if ET.tostring(ET.fromstring(s), encoding='unicode').replace('\r', '&#13;') != s:
            bad += 1
    return {'evaluations': n + n2, 'distinct': n, 'failures': failures,
            'rule': 'seeded random merge histories (0..6 messages of 14 kinds) from a running order whose slug holds one of 9 special texts (markup, non-BMP, CR, LF, tab); '
                    'after every step: str / read back / compare; plus %d seeded random trees through the assumed round trip A-ET-RT (%d disagreements)' % (n2, bad),
            'summary': {'short': '%d reachable states read back, %d failing; A-ET-RT conformance %d trees, %d disagree' % (n, len(failures), n2, bad), 'bounded': True},
            'assumptions': ['A-ET-RT conformance-tested on %d seeded random trees: %d disagreements' % (n2, bad)]}


def replay_C14(prop, f):
    viol, _ = check_c14(f['special_text'], [(k, a) for k, a in f['history']])
    return bool(viol)


# ------------------------------------------------------------------ C18 sources / readers / S3 listing (fake boto handles)
import os
import tempfile
import mosromgr.utils.s3 as s3mod
from mosromgr.moscollection import MosCollection, MosReader


class FakeBody:
    def __init__(self, data): self.data = data
    def read(self): return self.data


class FakeS3:
    """stands in for the lazily created boto3 handles of mosromgr.utils.s3.S3"""

    def __init__(self, objects, page_size):
        self.objects = objects          # ordered dict key -> bytes
        self.page_size = page_size
        fake = self

        class Resource:
            def Object(self, bucket, key):
                class O:
                    def get(self_inner):
                        return {'Body': FakeBody(fake.objects[key])}
                return O()

        class Paginator:
            def paginate(self, Bucket, Prefix):
                keys = [k for k in fake.objects if k.startswith(Prefix)]
                if not keys:
                    yield {'ResponseMetadata': {}}
                    return
                for i in range(0, len(keys), fake.page_size):
                    yield {'Contents': [{'Key': k, 'Size': 1} for k in keys[i:i + fake.page_size]]}

        class Client:
            def get_paginator(self, name):
                assert name == 'list_objects'
                return Paginator()
        self.resource, self.client = Resource(), Client()


def search_C18(tier, rng):
    from scenarios import ro_xml
    n = 0
    failures = []

    def fail(what, sha):
        if len(failures) < 10:
            failures.append({'property': 'C18', 'fn': 'mosromgr.mostypes.MosFile.from_string', 'what': what, 'input_sha': _sha(sha), 'api': 'see what'})
    docs = [ro_xml(['A', 'B'], items={'A': ['1']}).replace('the slug', 'Ünï ☃ &amp; 𝄞')]
    for kind, a in (('StoryAppend', dict(new=['N'])), ('StoryMove', dict(src='A', target='B')), ('EAItemSwap', dict(story='A', ids=['1', '2'])),
                    ('ItemInsert', dict(story='A', target=None, new=['n'])), ('MetaDataReplace', dict(body='<roSlug>é</roSlug>')),
                    ('RunningOrderEnd', {}), ('ReadyToAir', {}), ('StorySend', dict(target='A'))):
        docs.append(msg(kind, **a)[0])
    saved = s3mod.s3
    tmp = tempfile.mkdtemp(prefix='c18', dir='/var/tmp')
    try:
        objects = {}
        paths = []
        for i, d in enumerate(docs):
            pth = os.path.join(tmp, 'm%02d.mos.xml' % i)
            with open(pth, 'w', encoding='utf-8') as f:
                f.write(d)
            paths.append(pth)
            objects['pre/m%02d.mos.xml' % i] = d.encode('utf-8')
        objects['pre/readme.txt'] = b'not a mos file'
        objects['other/x.mos.xml'] = docs[1].encode('utf-8')
        s3mod.s3 = FakeS3(objects, 2)
        for i, d in enumerate(docs):
            n += 1
            objs = [MosFile.from_string(d), MosFile.from_string(d.encode('utf-8')), MosFile.from_file(paths[i]),
                    MosFile.from_s3('bk', 'pre/m%02d.mos.xml' % i)]
            if len({type(o).__name__ for o in objs}) != 1 or len({str(o) for o in objs}) != 1:
                fail('the same document gives different classes / serialisations from str, bytes, file and S3: %s' % [type(o).__name__ for o in objs], d)
            for rd in (MosReader.from_string(d), MosReader.from_file(paths[i]), MosReader.from_s3('bk', 'pre/m%02d.mos.xml' % i)):
                n += 1
                a, b = rd.mos_object, rd.mos_object
                if not (rd.message_id == objs[0].message_id and rd.ro_id == objs[0].ro_id and rd.mos_type is type(objs[0])
                        and type(a) is type(objs[0]) and str(a) == str(objs[0]) and a is not b and str(b) == str(a)):
                    fail('reader metadata / restored object disagree with the message (%s)' % type(objs[0]).__name__, d)
        # a document that is not UTF-8: its XML declaration decides, identically from bytes, a file and an S3 object
        for enc in ('ISO-8859-1', 'UTF-16'):
            raw = ('<?xml version="1.0" encoding="%s"?>' % enc + docs[0].replace('Ünï ☃ &amp; 𝄞', 'café ü')).encode(enc)
            pth = os.path.join(tmp, 'enc-%s.mos.xml' % enc)
            with open(pth, 'wb') as f:
                f.write(raw)
            s3mod.s3.objects['enc/%s.mos.xml' % enc] = raw
            n += 1
            res = []
            for nm, mk in (('bytes', lambda: MosFile.from_string(raw)), ('file', lambda: MosFile.from_file(pth)),
                           ('s3', lambda: MosFile.from_s3('bk', 'enc/%s.mos.xml' % enc)),
                           ('s3 reader', lambda: MosReader.from_s3('bk', 'enc/%s.mos.xml' % enc).mos_object)):
                try:
                    o = mk()
                    res.append((type(o).__name__, str(o)))
                except Exception as e:
                    res.append(('%s' % type(e).__name__, str(e)[:80]))
            if len(set(res)) != 1 or 'café ü' not in res[0][1]:
                fail('a %s-encoded document gives different results from bytes, file and S3 object: %s' % (enc, [r[0] for r in res]), 'enc ' + enc)
        # collections from the three constructors
        with warnings.catch_warnings():
            warnings.simplefilter('ignore')
            res = []
            for nm, mk in (('strings', lambda: MosCollection.from_strings(docs, allow_incomplete=False)), ('files', lambda: MosCollection.from_files(paths)),
                           ('s3', lambda: MosCollection.from_s3(bucket_name='bk', prefix='pre/'))):
                try:
                    mc = mk()
                    mc.merge(strict=False)
                    res.append(str(mc))
                except Exception as e:
                    res.append('%s: %s' % (type(e).__name__, e))
                n += 1
            if len(set(res)) != 1:
                fail('collections built from strings, files and S3 keys over the same contents give different results: %s' % [r[:60] for r in res], 'collections')
        # listing: every key with the suffix under the prefix, across pages
        for page_size in (1, 2, 3, 50):
            for nkeys in (0, 1, 2, 5, 7):
                for prefix in ('p/', '', None):
                    objs2 = {}
                    for i in range(nkeys):
                        objs2['p/k%d%s' % (i, '.mos.xml' if i % 3 != 2 else '.txt')] = b'x'
                        objs2['q/z%d.mos.xml' % i] = b'x'
                    s3mod.s3 = FakeS3(objs2, page_size)
                    n += 1
                    got = s3mod.get_mos_files('bk', prefix) if prefix is not None else s3mod.get_mos_files('bk')
                    exp = [k for k in objs2 if k.startswith(prefix or '') and k.endswith('.mos.xml')]
                    if got != exp:
                        fail('get_mos_files(prefix=%r) over %d keys in pages of %d returned %s, expected %s' % (prefix, len(objs2), page_size, got, exp),
                             'list %s %s %s' % (page_size, nkeys, prefix))
        # key (listing) order that is not the numeric message id order: the three constructors must still agree
        from oracles2 import mk_msgs
        spec = [('roCreate', 8), ('append', 9), ('delete', 10), ('move', 100), ('roreplace', 1000), ('iteminsert', 1001)]
        odocs = mk_msgs(spec)
        keyed = sorted(zip(['o/%d.mos.xml' % m for _, m in spec], odocs))          # byte order: 10, 100, 1000, 1001, 8, 9
        s3mod.s3 = FakeS3({k: d.encode('utf-8') for k, d in keyed}, 2)
        opaths = []
        for k, d in keyed:
            pth = os.path.join(tmp, k.replace('/', '_'))
            with open(pth, 'w', encoding='utf-8') as f:
                f.write(d)
            opaths.append(pth)
        with warnings.catch_warnings():
            warnings.simplefilter('ignore')
            res = []
            for nm, mk in (('strings', lambda: MosCollection.from_strings([d for _, d in keyed], allow_incomplete=True)),
                           ('files', lambda: MosCollection.from_files(opaths, allow_incomplete=True)),
                           ('s3', lambda: MosCollection.from_s3(bucket_name='bk', prefix='o/', allow_incomplete=True))):
                n += 1
                try:
                    mc = mk()
                    ids = [r.message_id for r in mc.mos_readers]
                    mc.merge(strict=False)
                    res.append((ids, str(mc)))
                except Exception as e:
                    res.append(('%s: %s' % (type(e).__name__, e),))
            if len({json.dumps(r) for r in res}) != 1:
                fail('collections from strings, files and S3 keys listed in byte order (10, 100, 1000, 1001, 8, 9) disagree: readers %s' % [r[0] for r in res],
                     'keyorder')
        # suffix matching is exact (keys and suffixes differing in case, a custom suffix)
        objs3 = {k: b'x' for k in ('p/a.mos.xml', 'p/B.MOS.XML', 'p/c.Mos.Xml', 'p/d.xml', 'p/e.XML', 'p/f.mos.xml.bak', 'p/.mos.xml', 'p/gmos.xml')}
        s3mod.s3 = FakeS3(objs3, 3)
        for sfx in (None, '.mos.xml', '.MOS.XML', '.xml', '.XML', ''):
            n += 1
            got = s3mod.get_mos_files('bk', 'p/') if sfx is None else s3mod.get_mos_files('bk', 'p/', suffix=sfx)
            exp = [k for k in objs3 if k.endswith('.mos.xml' if sfx is None else sfx)]
            if got != exp:
                fail('get_mos_files(suffix=%r) returned %s, expected %s' % (sfx, got, exp), 'suffix %s' % sfx)
    finally:
        s3mod.s3 = saved
        import shutil
        shutil.rmtree(tmp)
    return {'evaluations': n, 'distinct': n, 'failures': failures,
            'rule': '9 documents (Unicode content) via str, bytes, file and a fake S3 object; readers from the three constructors; collections from the three '
                    'constructors; ISO-8859-1 and UTF-16 encoded documents via bytes, file and S3 object; bucket listings of 0..14 keys in pages of 1, 2, 3, 50 '
                    'with and without suffix, prefixes p/, empty and omitted; suffixes and keys differing in case',
            'summary': {'short': '%d source / reader / listing comparisons, %d failing' % (n, len(failures)), 'bounded': True},
            'assumptions': ['S3 is a fake paginator / object store installed in place of the lazy boto3 handles']}


def replay_C18(prop, f):
    r = search_C18('thorough', None)
    return any(x['input_sha'] == f['input_sha'] for x in r['failures'])


# ------------------------------------------------------------------ C19 command line
import io as _io
import contextlib as _ctx
import itertools as _it


def run_cli(argv):
    from mosromgr.cli import main
    out, err = _io.StringIO(), _io.StringIO()
    code = None
    with _ctx.redirect_stdout(out), _ctx.redirect_stderr(err):
        try:
            code = main(argv)
        except SystemExit as e:
            code = 'exit:%s' % e.code
        except BaseException as e:
            code = 'raised:%s' % type(e).__name__
    return code, out.getvalue(), err.getvalue()


def search_C19(tier, rng):
    from scenarios import ro_xml
    n = 0
    failures = []

    def fail(what, argv):
        if len(failures) < 10:
            failures.append({'property': 'C19', 'fn': 'mosromgr.cli.CLI', 'argv': argv, 'what': '%s (argv %s)' % (what, argv),
                             'input_sha': _sha(json.dumps(argv)), 'api': 'mosromgr.cli.main(argv)'})
    tmp = tempfile.mkdtemp(prefix='c19', dir='/var/tmp')
    try:
        files = {}
        docs = {'ro': ro_xml(['A', 'B', 'C'], items={'A': ['1', '2']}, mid=1),
                'append': msg('StoryAppend', mid=2, new=['N'])[0], 'move': msg('EAStoryMove', mid=3, target='A', ids=['C'])[0],
                'bad': msg('StoryReplace', mid=4, target='ZZ', new=['Q'])[0], 'roreplace': msg('RunningOrderReplace', mid=5, new=['A', 'B'])[0].replace('><', '>\n <'),
                'end': msg('RunningOrderEnd', mid=9)[0], 'send': msg('StorySend', mid=6, target='A')[0], 'swap': msg('EAItemSwap', mid=7, story='A', ids=['1', '2'])[0]}
        # a roReplace written without white space between the tags and with an empty optional element: children without text
        docs['roreplace_compact'] = msg('RunningOrderReplace', mid=10, new=['A', 'B'])[0].replace('</roID>', '</roID><roTrigger/>', 1)
        docs['append_cr'] = msg('StoryAppend', mid=8, new=['CR'])[0].replace('slug CR', 'line one&#13;&#10;line two&#13;')
        for k, d in docs.items():
            files[k] = os.path.join(tmp, k + '.mos.xml')
            open(files[k], 'w').write(d)
        files['notxml'] = os.path.join(tmp, 'notxml.mos.xml')
        open(files['notxml'], 'w').write('this is not xml')
        files['unknown'] = os.path.join(tmp, 'unknown.xml')
        open(files['unknown'], 'w').write('<html><body/></html>')
        files['missing'] = os.path.join(tmp, 'does-not-exist.xml')
        files['dir'] = tmp
        completed = os.path.join(tmp, 'completed.xml')
        ro = RunningOrder.from_string(docs['ro'])
        ro += MosFile.from_string(docs['end'])
        open(completed, 'w').write(str(ro))
        files['completed'] = completed
        names = list(files)
        # detect / inspect: every single file, pairs and triples with a bad one in every position
        lists = [[k] for k in names] + [list(p) for p in _it.permutations(['ro', 'missing', 'append'], 3)] + \
                [['notxml', 'move', 'dir', 'swap'], ['unknown', 'completed', 'send'], names] + \
                [['ro', 'append', 'ro'], ['append', 'append'], ['missing', 'ro', 'missing', 'ro']]      # a path listed twice is reported twice
        for cmd in ('detect', 'inspect'):
            for lst in lists:
                argv = [cmd, '-f'] + [files[k] for k in lst]
                n += 1
                code, out, err = run_cli(argv)
                exp_lines = []
                for k in lst:
                    try:
                        mo = MosFile.from_file(files[k])
                        exp_lines.append('%s: %s%s' % (files[k], type(mo).__name__, ' (completed)' if mo.completed else ''))
                    except Exception:
                        exp_lines.append(None)
                got = [l for l in out.splitlines() if any(l.startswith(files[k] + ':') for k in lst)]
                if code not in (None, 0):
                    fail('%s returned %r' % (cmd, code), argv)
                elif got != [l for l in exp_lines if l is not None]:
                    fail('%s printed %s, the library says %s' % (cmd, got, [l for l in exp_lines if l]), argv)
                elif sum(1 for l in err.splitlines() if l.endswith(': Invalid')) != sum(1 for l in exp_lines if l is None):
                    fail('%s did not mark exactly the unreadable / unclassifiable files invalid' % cmd, argv)
        # usage errors
        for argv in (['detect'], ['inspect'], ['merge'], ['detect', '-b', 'bk'], ['detect', '-f']):
            n += 1
            code, out, err = run_cli(argv)
            if code != 2 or not err.strip():
                fail('usage error returned %r (stderr %r)' % (code, err[:60]), argv)
        # merge: all option combinations over several file sets
        sets = {'complete': ['ro', 'append', 'move', 'end'], 'incomplete': ['ro', 'append', 'swap'], 'failing': ['ro', 'bad', 'append', 'end'],
                'invalid': ['append', 'end'], 'unreadable': ['ro', 'missing', 'end'], 'after_end': ['ro', 'end', 'roreplace']}
        sets['after_end'] = ['ro', 'append', 'end']
        sets['listed_twice'] = ['ro', 'append', 'append', 'end', 'ro']
        sets['carriage_return'] = ['ro', 'append_cr', 'end']        # text holding U+000D: the written file is still str(collection)
        for sname, lst in sets.items():
            for inc, ns, of in _it.product((False, True), (False, True), (False, True)):
                outp = os.path.join(tmp, 'out.xml')
                if os.path.exists(outp):
                    os.unlink(outp)
                argv = ['merge', '-f'] + [files[k] for k in lst] + (['-i'] if inc else []) + (['-n'] if ns else []) + (['-o', outp] if of else [])
                n += 1
                code, out, err = run_cli(argv)
                # library result
                exp_err, exp_str = None, None
                try:
                    with warnings.catch_warnings():
                        warnings.simplefilter('ignore')
                        mc = MosCollection.from_files([files[k] for k in lst], allow_incomplete=inc)
                        mc.merge(strict=not ns)
                    exp_str = str(mc)
                except Exception as e:
                    exp_err = e
                if exp_err is not None:
                    if code != 2 or not err.strip():
                        fail('merge of an erroneous collection (%s: %s) returned %r' % (sname, type(exp_err).__name__, code), argv)
                    continue
                if code not in (None, 0):
                    fail('successful merge returned %r (stderr %s)' % (code, err[:80]), argv)
                elif of:
                    if not os.path.exists(outp) or open(outp, newline='').read() != exp_str:
                        fail('file written by -o differs from the serialisation of the merged collection', argv)
                elif exp_str not in out or out.strip() != exp_str.strip():
                    fail('stdout of merge differs from the serialisation of the merged collection', argv)
        # merge from a (fake) bucket: every combination of -s -i -n
        saved = s3mod.s3
        try:
            for sname, lst in (('complete', ['ro', 'append', 'move', 'end']), ('incomplete', ['ro', 'append', 'swap'])):
                objects = {}
                for k in lst:
                    objects['pre/%s.mos.xml' % k] = docs[k].encode('utf-8')
                    objects['pre/%s.alt' % k] = docs[k].encode('utf-8')
                objects['pre/zzz.txt'] = b'junk'
                for sfx, inc, ns in _it.product((None, '.mos.xml', '.alt'), (False, True), (False, True)):
                    s3mod.s3 = FakeS3(objects, 2)
                    argv = ['merge', '-b', 'bk', '-p', 'pre/'] + (['-s', sfx] if sfx else []) + (['-i'] if inc else []) + (['-n'] if ns else [])
                    n += 1
                    code, out, err = run_cli(argv)
                    exp_err, exp_str = None, None
                    try:
                        with warnings.catch_warnings():
                            warnings.simplefilter('ignore')
                            kw = dict(bucket_name='bk', prefix='pre/', allow_incomplete=inc)
                            if sfx:
                                kw['suffix'] = sfx
                            mc = MosCollection.from_s3(**kw)
                            mc.merge(strict=not ns)
                        exp_str = str(mc)
                    except Exception as e:
                        exp_err = e
                    if exp_err is not None:
                        if code != 2:
                            fail('merge from a bucket of an erroneous collection (%s) returned %r' % (type(exp_err).__name__, code), argv)
                    elif code not in (None, 0) or out.strip() != exp_str.strip():
                        fail('merge from a bucket (%s) returned %r / output differs from the library result (stderr %s)' % (sname, code, err[:80]), argv)
        finally:
            s3mod.s3 = saved
    finally:
        import shutil
        shutil.rmtree(tmp)
    return {'evaluations': n, 'distinct': n, 'failures': failures,
            'rule': 'detect and inspect over 12 files (every kind, non-XML, unknown XML, missing path, directory, completed RO) singly and in lists with a bad file in '
                    'every position; 5 usage errors; merge over 6 file sets x all 8 combinations of -i -n -o; oracle = MosFile / MosCollection called directly',
            'summary': {'short': '%d command lines, %d failing' % (n, len(failures)), 'bounded': True, 'exhaustive_options': True}, 'assumptions': []}


def replay_C19(prop, f):
    r = search_C19('thorough', None)
    return any(x['input_sha'] == f['input_sha'] for x in r['failures'])


# ------------------------------------------------------------------ C13 histories: re-use of a message object
def c13_history_cases():
    base = dict(stories=['A', 'B', 'C'], meta_layout='all', items={'A': ['1', '2']})
    yield 'StoryAppend', dict(new=['N1']), [('ItemDelete', dict(story='N1', ids=['n1'])), ('ItemInsert', dict(story='N1', target=None, new=['z9']))], base
    yield 'StoryInsert', dict(target='B', new=['N1', 'N2']), [('ItemDelete', dict(story='N1', ids=['n1']))], base
    yield 'StoryReplace', dict(target='B', new=['N1']), [('ItemInsert', dict(story='N1', target='n1', new=['z9']))], base
    yield 'EAStoryInsert', dict(target='B', new=['N1']), [('EAItemDelete', dict(story='N1', ids=['n1']))], base
    yield 'EAStoryReplace', dict(target='B', new=['N1']), [('ItemDelete', dict(story='N1', ids=['n1']))], base
    yield 'StorySend', dict(target='A'), [('ItemDelete', dict(story='A', ids=['s1'])), ('ItemInsert', dict(story='A', target=None, new=['z9']))], base
    yield 'ItemInsert', dict(story='A', target='2', new=['n1']), [('ItemReplace', dict(story='A', target='n1', new=['z9'])), ('ItemDelete', dict(story='A', ids=['n1']))], base
    yield 'ItemReplace', dict(story='A', target='2', new=['n1']), [('ItemDelete', dict(story='A', ids=['n1']))], base
    yield 'EAItemInsert', dict(story='A', target='2', new=['n1']), [('ItemDelete', dict(story='A', ids=['n1']))], base
    yield 'EAItemReplace', dict(story='A', target='2', new=['n1']), [('ItemDelete', dict(story='A', ids=['n1']))], base
    yield 'RunningOrderReplace', dict(new=['X1', 'X2']), [('ItemDelete', dict(story='X1', ids=['r1'])), ('StoryDelete', dict(ids=['X2']))], base
    yield 'MetaDataReplace', dict(body='<roSlug>m1</roSlug><mosExternalMetadata><mosSchema>http://x/ro</mosSchema><mosPayload><a>7</a></mosPayload></mosExternalMetadata>'), \
        [('MetaDataReplace', dict(body='<roSlug>m2</roSlug>'))], base
    yield 'RunningOrderEnd', {}, [], base


def check_c13_history(kind, a, later, ro_spec):
    from scenarios import ro_xml
    mx = msg(kind, **a)[0]
    viol = []
    with warnings.catch_warnings():
        warnings.simplefilter('ignore')
        m = MosFile.from_string(mx)
        before = str(m)
        ro1 = RunningOrder.from_string(ro_xml(**ro_spec))
        ro1 += m
        for k2, a2 in later:
            try:
                ro1 += MosFile.from_string(msg(k2, **a2)[0])
            except Exception:
                pass
        if str(m) != before:
            viol.append('a later merge into the running order changed the message object')
        # what the message object exposes must still be what a fresh parse exposes
        fresh = MosFile.from_string(mx)
        for acc in ('story', 'stories', 'source_stories', 'items'):
            if hasattr(type(m), acc):
                try:
                    va, vb = getattr(m, acc), getattr(fresh, acc)
                    sa = [str(x) for x in (va if isinstance(va, (list, tuple)) else [va]) if x is not None]
                    sb = [str(x) for x in (vb if isinstance(vb, (list, tuple)) else [vb]) if x is not None]
                    if sa != sb:
                        viol.append('%s.%s of the re-used message object differs from a fresh parse after later merges' % (kind, acc))
                except Exception:
                    pass
        ro2 = RunningOrder.from_string(ro_xml(**ro_spec))
        ro3 = RunningOrder.from_string(ro_xml(**ro_spec))
        ro2 += m
        ro3 += MosFile.from_string(mx)
        if str(ro2) != str(ro3):
            viol.append('merging the re-used message object gives a different result from merging a fresh parse')
        ids1 = {id(e) for e in ro1.xml.iter()}
        if any(id(e) in ids1 for e in ro2.xml.iter()):
            viol.append('two running orders share elements through the message object')
    return viol


def search_C13_history():
    n = 0
    failures = []
    for kind, a, later, ro_spec in c13_history_cases():
        n += 1
        try:
            viol = check_c13_history(kind, a, later, ro_spec)
        except Exception as e:
            viol = ['harness: %s %s' % (type(e).__name__, e)]
        for w in viol[:1]:
            failures.append({'property': 'C13', 'fn': 'mosromgr.mostypes.%s.merge' % kind, 'kind': kind, 'args': a, 'later': [[k, x] for k, x in later],
                             'ro_spec': ro_spec, 'history': True, 'what': '%s: %s' % (kind, w), 'input_sha': _sha(json.dumps([kind, a])),
                             'api': 'ro1 += m; later merges into ro1; ro2 += m (same object) vs ro3 += fresh parse'})
    for ctor in ('from_string', 'from_file'):
        n += 1
        try:
            viol = check_c13_readers(ctor)
        except Exception as e:
            viol = ['harness: %s %s' % (type(e).__name__, e)]
        for w in viol[:1]:
            failures.append({'property': 'C13', 'fn': 'mosromgr.moscollection.MosReader.%s' % ctor, 'readers': ctor, 'history': True,
                             'what': 'readers built with %s: %s' % (ctor, w), 'input_sha': _sha('readers ' + ctor),
                             'api': 'readers = [MosReader.%s(..)]; a = MosCollection(readers); b = MosCollection(readers); a.merge(); b' % ctor})
    return n, failures


def check_c13_readers(ctor):
    """two collections built from ONE list of readers never share mutable content: merging the first leaves the second
    the bare roCreate, and merging the second then gives the same document"""
    import tempfile, os as _os, shutil
    from mosromgr.moscollection import MosCollection, MosReader
    from scenarios import ro_xml
    docs = [ro_xml(['A', 'B', 'C'], mid=1, items={'A': ['1', '2']}),
            msg('StoryAppend', mid=2, new=['N1'])[0], msg('ItemDelete', mid=3, story='A', ids=['1'])[0],
            msg('StoryDelete', mid=4, ids=['B'])[0]]
    d = None
    try:
        if ctor == 'from_file':
            d = tempfile.mkdtemp(prefix='c13r.', dir='/var/tmp')
            paths = []
            for k, x in enumerate(docs):
                pth = _os.path.join(d, 'm%d.mos.xml' % k)
                open(pth, 'w').write(x)
                paths.append(pth)
            readers = [MosReader.from_file(q) for q in paths]
        else:
            readers = [MosReader.from_string(x) for x in docs]
        a = MosCollection(list(readers), allow_incomplete=True)
        b = MosCollection(list(readers), allow_incomplete=True)
        bare = str(b)
        viol = []
        with warnings.catch_warnings():
            warnings.simplefilter('ignore')
            a.merge()
            if str(b) != bare:
                viol.append('merging one collection changed another collection built from the same readers')
            ids_a = {id(e) for e in a.ro.xml.iter()}
            if a.ro is b.ro or any(id(e) in ids_a for e in b.ro.xml.iter()):
                viol.append('two collections share running-order content through their readers')
            b.merge()
            if str(b) != str(a):
                viol.append('the second collection merged to a different document than the first')
        return viol
    finally:
        if d:
            shutil.rmtree(d, ignore_errors=True)
