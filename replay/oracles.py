"""Independent reading of the properties on the real code (reference model on ID lists).

The reference works on abstract lists of IDs and is written from the property
statements and the MOS outlines (DESIGN.md appendix C), not from mosromgr."""
import json
import hashlib
import warnings
import xml.etree.ElementTree as ET

from mosromgr.mostypes import MosFile, RunningOrder
from mosromgr import exc as X
from scenarios import merge_cases, ro_xml, msg, describe, ABSENT

MERGE_PROPS = ('C01', 'C02', 'C03', 'C05', 'C06', 'C12', 'C13')
MERGE_EXTRA = ('C04',)


def ser(e):
    return ET.tostring(e, encoding='unicode')


def snapshot(ro):
    base = ro.xml.find('roCreate')
    kids = []
    for c in list(base):
        cid = None
        if c.tag == 'story':
            t = c.find('storyID')
            cid = t.text if t is not None else None
        kids.append({'tag': c.tag, 'id': cid, 'ser': ser(c), 'el': c})
    return {'str': str(ro), 'kids': kids}


def story_items(el):
    out = []
    for c in list(el):
        iid = None
        if c.tag == 'item':
            t = c.find('itemID')
            iid = t.text if t is not None else None
        out.append({'tag': c.tag, 'id': iid, 'ser': ser(c), 'el': c})
    return out


def block_move(seq, block, target):
    rest = [x for x in seq if x not in block]
    if target is None:
        return rest + list(block)
    i = rest.index(target)
    return rest[:i] + list(block) + rest[i:]


def expect(kind, a, S, I):
    """-> dict(status, seq (expected id sequence of stories or of items), warn, named)"""
    lvl_items = kind in ('ItemInsert', 'EAItemInsert', 'ItemReplace', 'EAItemReplace', 'ItemDelete', 'EAItemDelete',
                         'ItemMoveMultiple', 'EAItemMove', 'EAItemSwap')
    E = dict(status='apply', seq=None, warn={}, named=set(), items=lvl_items, signal=True)
    if lvl_items:
        st = a['story']
        if st not in S:
            E['status'] = 'inert'
            if kind == 'EAItemDelete':
                E['warn'] = {'StoryNotFoundWarning': 1}
            return E
        L = list(I)
    else:
        L = list(S)
    blank_end = kind in ('EAStoryInsert', 'StoryMove', 'EAStoryMove', 'ItemInsert', 'EAItemInsert', 'ItemMoveMultiple', 'EAItemMove')
    t = a.get('target')
    if kind in ('StoryAppend',):
        E['seq'] = L + a['new'] if not (set(a['new']) & set(L)) else None
        E['status'] = 'apply' if E['seq'] is not None else 'free'
        return E
    if kind in ('StoryInsert', 'EAStoryInsert', 'ItemInsert', 'EAItemInsert'):
        if t in L or (blank_end and t in (None, ABSENT)):
            tgt = t if t in L else None
            if lvl_items:
                new = list(a['new'])
                E['warn'] = {}
            else:
                new = [n for n in a['new'] if n not in L]
                d = len(a['new']) - len(new)
                E['warn'] = {'DuplicateStoryWarning': d} if d else {}
            E['seq'] = block_move(L, new, tgt)
            E['named'] = set(a['new'])
        else:
            E['status'] = 'inert'
        return E
    if kind in ('StoryReplace', 'EAStoryReplace', 'ItemReplace', 'EAItemReplace'):
        if t in L and a['new']:
            i = L.index(t)
            E['seq'] = L[:i] + list(a['new']) + L[i + 1:]
            E['named'] = {t} | set(a['new'])
        else:
            E['status'] = 'inert'
        return E
    if kind in ('StoryDelete', 'EAStoryDelete', 'ItemDelete', 'EAItemDelete'):
        cur = list(L)
        miss = 0
        for x in a['ids']:
            if x in cur:
                cur.remove(x)
            else:
                miss += 1
        E['seq'] = cur
        cat = 'ItemNotFoundWarning' if lvl_items else 'StoryNotFoundWarning'
        E['warn'] = {cat: miss} if miss else {}
        E['named'] = set(a['ids'])
        return E
    if kind == 'StoryMove':
        s = a['src']
        if s not in L:
            E['status'] = 'inert'
        elif t in L:
            if s == t:
                E['status'] = 'same'
            else:
                E['seq'] = block_move(L, [s], t)
        elif t in (None, ABSENT):
            E['seq'] = block_move(L, [s], None)
        else:
            E['status'] = 'inert'
        E['named'] = {s}
        return E
    if kind in ('EAStoryMove', 'ItemMoveMultiple', 'EAItemMove'):
        ids = a['ids']
        ok_src = all(x in L for x in ids) and len(set(ids)) == len(ids)
        E['named'] = set(ids)
        if t in L:
            if ok_src and t not in ids:
                E['seq'] = block_move(L, ids, t)
            elif ok_src or all(x in L for x in ids):
                E['status'] = 'members'      # self-contradictory: never lose an element, unchanged if it raises
            else:
                E['status'] = 'inert' if kind != 'EAStoryMove' else 'inert_or_partial'
        elif t in (None, ABSENT):
            if ok_src:
                E['seq'] = block_move(L, ids, None)
            elif all(x in L for x in ids):
                E['status'] = 'members'
            else:
                E['status'] = 'inert' if kind != 'EAStoryMove' else 'inert_or_partial'
        else:
            E['status'] = 'inert'
        return E
    if kind in ('EAStorySwap', 'EAItemSwap'):
        x, y = a['ids']
        if x in L and y in L and x != y:
            M = list(L)
            i, j = M.index(x), M.index(y)
            M[i], M[j] = M[j], M[i]
            E['seq'] = M
            E['named'] = {x, y}
        elif x in L and x == y:
            E['status'] = 'same'
        else:
            E['status'] = 'inert'
        return E
    if kind == 'StorySend':
        if t in L:
            E['seq'] = list(L)
            E['named'] = {t}
        else:
            E['status'] = 'inert'
            E['warn'] = {'StoryNotFoundWarning': 1}
        return E
    E['status'] = 'other'
    return E


def run_case(case):
    """executes the real merge; returns list of (property, what) violations"""
    rox = ro_xml(**case['ro'])
    mx, fn = msg(case['kind'], **case['args'])
    return check_pair(rox, mx, case['kind'], case['args'], fn, prefix=_prefix_xml(case))


def _prefix_xml(case):
    return [msg(k, mid=2 + i, **a)[0] for i, (k, a) in enumerate(case.get('prefix') or ())]


def check_pair(rox, mx, kind, a, fn, prefix=None):
    viol = []
    ro = RunningOrder.from_string(rox)
    if prefix:
        # a history on ONE RunningOrder object: read the accessors (anything they remember must not go stale), apply the
        # earlier messages, then check the last merge against the state the history reached
        try:
            _ = (ro.base_tag, ro.ro_id, ro.ro_slug, ro.message_id, [(s.id, s.duration, [i.id for i in (s.items or [])]) for s in ro.stories],
                 ro.duration, ro.start_time, ro.end_time)
        except Exception:
            pass
        for px in prefix:
            ro += MosFile.from_string(px)
    try:
        m = MosFile.from_string(mx)
    except Exception as e:
        return [('C12', 'classification of a schema-shaped %s raised %s: %s' % (kind, type(e).__name__, e))]
    if type(m).__name__ != kind:
        viol.append(('C08', 'message built as %s classified as %s' % (kind, type(m).__name__)))
    before = snapshot(ro)
    # a story / item of the running order whose own ID is blank can never be referenced (a blank reference matches nothing):
    # it takes part in the sequences under a placeholder that no message can name
    BL = '\u2205blank'
    nz = lambda x: BL if x is None else x
    S = [nz(k['id']) for k in before['kids'] if k['tag'] == 'story']
    st_el = None
    I = []
    if 'story' in a:
        for k in before['kids']:
            if k['tag'] == 'story' and k['id'] == a['story'] and a['story'] is not None:
                st_el = k['el']
                break
        if st_el is not None:
            items_before = story_items(st_el)
            I = [nz(x['id']) for x in items_before if x['tag'] == 'item']
    m_before = str(m)
    exc = None
    with warnings.catch_warnings(record=True) as wl:
        warnings.simplefilter('always')
        try:
            r2 = ro + m
        except Exception as e:
            exc = e
    wcount = {}
    for w in wl:
        if issubclass(w.category, X.MosRoMgrWarning):
            wcount[w.category.__name__] = wcount.get(w.category.__name__, 0) + 1
    after = snapshot(ro)
    raised = exc is not None
    # ---- C12 / C05
    if raised and not isinstance(exc, X.MosMergeError):
        viol.append(('C12', 'merge raised %s (%s) instead of MosMergeError' % (type(exc).__name__, exc)))
    if raised and after['str'] != before['str']:
        viol.append(('C05', 'merge raised %s but the running order changed' % type(exc).__name__))
    # ---- C13
    if str(m) != m_before:
        viol.append(('C13', 'the message object was modified by the merge'))
    ids_ro = {id(e) for e in ro.xml.iter()}
    if any(id(e) in ids_ro for e in m.xml.iter()):
        viol.append(('C13', 'running order and message share elements after the merge'))
    if kind == 'MetaDataReplace' and not raised:
        viol += check_metadata(before, after, mx)
    E = expect(kind, a, S, I)
    if E['status'] == 'other':
        return viol
    P = 'C02' if E['items'] else 'C01'
    # ---- placement (C01 / C02) and collateral (C03)
    if E['items'] and st_el is not None:
        items_after = story_items(st_el) if any(k['el'] is st_el for k in after['kids']) else None
        seq_after = [nz(x['id']) for x in items_after if x['tag'] == 'item'] if items_after is not None else None
    else:
        seq_after = [nz(k['id']) for k in after['kids'] if k['tag'] == 'story']
    seq_before = I if (E['items'] and st_el is not None) else S
    if E['status'] == 'apply':
        if raised:
            viol.append((P, 'references resolve but the merge raised %s' % type(exc).__name__))
            if not isinstance(exc, X.MosRoMgrException):
                # the named elements were not (all) acted on and nothing the library defines reported it
                viol.append(('C06', 'named elements were not acted on and no mosromgr warning or error reported it: %s escaped'
                             % type(exc).__name__))
        else:
            if seq_after != E['seq']:
                viol.append((P, 'sequence after merge %s, protocol requires %s' % (seq_after, E['seq'])))
                missing = [x for x in (E['seq'] or []) if x not in (seq_after or [])]
                extra = [x for x in (seq_after or []) if x not in (E['seq'] or [])]
                if missing or extra:
                    viol.append(('C06', 'a named element was silently not acted on: expected %s, got %s' % (E['seq'], seq_after)))
            if wcount != E['warn']:
                viol.append(('C06', 'warnings %s, expected %s' % (wcount, E['warn'])))
    elif E['status'] in ('inert', 'same'):
        if ('Move' in kind or 'Swap' in kind) and sorted(map(str, seq_after or [])) != sorted(map(str, seq_before)):
            viol.append((P, 'a move / swap added or lost an element: %s -> %s' % (seq_before, seq_after)))
        if after['str'] != before['str']:
            viol.append(('C03', 'unresolvable/self reference but the running order changed (%s -> %s)' % (seq_before, seq_after)))
        if E['status'] == 'inert' and not raised:
            if E['warn']:
                if wcount != E['warn']:
                    viol.append(('C06', 'warnings %s, expected %s' % (wcount, E['warn'])))
            elif sum(wcount.values()) < 1:
                viol.append(('C06', 'a named element could not be resolved but nothing was reported'))
    elif E['status'] in ('members', 'inert_or_partial'):
        if sorted(map(str, seq_after or [])) != sorted(map(str, seq_before)):
            viol.append((P, 'a move added or lost an element: %s -> %s' % (seq_before, seq_after)))
    # ---- C03: everything not named keeps content and relative order
    if not raised and E['status'] in ('apply', 'members', 'inert_or_partial', 'free'):
        named = E['named']
        if E['items'] and st_el is not None:
            # other children of roCreate untouched and in place
            b = [(k['tag'], k['ser']) for k in before['kids'] if k['el'] is not st_el]
            c = [(k['tag'], k['ser']) for k in after['kids'] if k['el'] is not st_el]
            if b != c:
                viol.append(('C03', 'an item operation changed something outside the addressed story'))
            old = {id(x['el']) for x in items_before}
            bu = [x['ser'] for x in items_before if not (x['tag'] == 'item' and nz(x['id']) in named)]
            au = [x['ser'] for x in (items_after or []) if id(x['el']) in old and not (x['tag'] == 'item' and nz(x['id']) in named)]
            if bu != au:
                viol.append(('C03', 'unnamed children of the addressed story changed or were reordered'))
        else:
            old = {id(k['el']) for k in before['kids']}
            bu = [k['ser'] for k in before['kids'] if not (k['tag'] == 'story' and nz(k['id']) in named)]
            au = [k['ser'] for k in after['kids'] if id(k['el']) in old and not (k['tag'] == 'story' and nz(k['id']) in named)]
            if bu != au:
                viol.append(('C03', 'unnamed children of roCreate changed or were reordered'))
    return viol


def _canon(e, top=True):
    return (e.tag, tuple(sorted(e.attrib.items())), e.text, None if top else e.tail, tuple(_canon(c, False) for c in e))


def check_metadata(before, after, mx):
    """roMetadataReplace: a carried element replaces, in place, the first roCreate child with the same tag (for
    mosExternalMetadata: and the same, present, mosSchema); otherwise it is added; nothing else changes"""
    mroot = ET.fromstring(mx)
    mb = mroot.find('roMetadataReplace')
    exp = [('old', k['el'], _canon(k['el'])) for k in before['kids']]

    def schema(e):
        s = e.find('mosSchema')
        return s.text if s is not None else None
    for c in mb:
        idx = None
        for i, (kind_, el, cn) in enumerate(exp):
            if cn[0] != c.tag:
                continue
            if c.tag == 'mosExternalMetadata':
                els = el if kind_ == 'old' else el
                if schema(c) is None or schema(els) is None or schema(c) != schema(els):
                    continue
            idx = i
            break
        if idx is None:
            exp.append(('new', c, _canon(c)))
        else:
            exp[idx] = ('new', c, _canon(c))
    got = [_canon(k['el']) for k in after['kids']]
    out = []
    if got != [cn for _, _, cn in exp]:
        # attribute to C03 when something not carried changed, else C04
        old_kept = [cn for kind_, _, cn in exp if kind_ == 'old']
        got_old = [cn for cn in got if cn in old_kept]
        if got_old != old_kept:
            out.append(('C03', 'roMetadataReplace altered or removed metadata / stories it does not carry'))
        else:
            out.append(('C04', 'roMetadataReplace: a carried metadata element is not present with the sent content'))
    return out


def _mk_failure(prop, case, what):
    rox = ro_xml(**case['ro'])
    mx, fn = msg(case['kind'], **case['args'])
    f = {'property': prop, 'fn': fn, 'kind': case['kind'], 'args': case['args'], 'ro_spec': case['ro'], 'ro': rox, 'msg': mx,
         'what': what, 'api': 'ro = RunningOrder.from_string(ro); ro += MosFile.from_string(msg)'}
    if case.get('prefix'):
        f['prefix'] = _prefix_xml(case)
        f['prefix_kinds'] = [k for k, _ in case['prefix']]
        f['api'] = 'ro = RunningOrder.from_string(ro); read its accessors; for p in prefix: ro += MosFile.from_string(p); ro += MosFile.from_string(msg)'
    f['input_sha'] = hashlib.sha256((rox + '\n' + mx).encode()).hexdigest()[:16]
    return f


def search_merges(prop, tier, rng):
    n = 0
    distinct = set()
    failures = []
    seen_what = set()
    per_kind = {}
    for case in merge_cases(tier, rng):
        n += 1
        key = (case['kind'], json.dumps(case['args'], sort_keys=True), json.dumps(case['ro'], sort_keys=True),
               json.dumps(case.get('prefix'), sort_keys=True))
        distinct.add(hashlib.md5(repr(key).encode()).hexdigest())
        per_kind[case['kind']] = per_kind.get(case['kind'], 0) + 1
        try:
            viol = run_case(case)
        except Exception as e:
            viol = [('C12', 'harness: %s: %s' % (type(e).__name__, e))]
        for p, what in viol:
            if p != prop:
                continue
            sig = (case['kind'], what.split(' (')[0][:60])
            if sig in seen_what and len(failures) >= 3:
                continue
            seen_what.add(sig)
            if len(failures) < 12:
                failures.append(_mk_failure(prop, case, what))
    return {'evaluations': n, 'distinct': len(distinct), 'failures': failures,
            'rule': 'exhaustive small scope: running orders of 1..%s stories x metadata layouts x every message kind x references in '
                    '{existing, unknown, blank, absent} (%s); a case is one (running order, message) pair; distinct = distinct pairs' % (
                        '5' if tier == 'thorough' else '4', json.dumps(per_kind, sort_keys=True)),
            'summary': {'short': '%d real merges, %d failing inputs' % (n, len(failures)), 'cases_per_kind': per_kind,
                        'bounded': True, 'note': 'bounded real-code check (never counted as proved)'},
            'assumptions': ['bounded real-code check covers <= %s stories / items and <= %s sources per message' % (
                '5' if tier == 'thorough' else '4', '3' if tier == 'thorough' else '2')]}


for _p in MERGE_PROPS:
    globals()['search_' + _p] = (lambda tier, rng, _p=_p: search_merges(_p, tier, rng))


def replay_generic(prop, f):
    """True if the recorded input still violates the property"""
    viol = check_pair(f['ro'], f['msg'], f['kind'], f['args'], f['fn'], prefix=f.get('prefix'))
    return any(p == prop for p, _ in viol)


from oracles2 import *   # noqa: classification / collection / completion oracles


def search_C12(tier, rng):
    r = search_merges('C12', tier, rng)
    n, fl = search_C12_classification(tier, rng)
    r['evaluations'] += n
    r['failures'] = fl + r['failures']
    r['summary']['short'] += '; %d classifications of well-formed documents, %d failing' % (n, len(fl))
    return r


def replay_C12(prop, f):
    if 'doc' in f:
        r = classify(f['doc'], 'str', False)
        return r.startswith('exc:') and r != 'exc:UnknownMosFileType'
    return replay_generic(prop, f)
from oracles3 import *   # noqa: accessor oracles


def search_C13(tier, rng):
    r = search_merges('C13', tier, rng)
    n, fl = search_C13_history()
    r['evaluations'] += n
    r['failures'] = fl + r['failures']
    r['summary']['short'] += '; %d message re-use histories, %d failing' % (n, len(fl))
    r['rule'] += '; plus %d histories: merge, later edits of the carried content, re-use of the same message object in a second running order' % n
    return r


def replay_C13(prop, f):
    if f.get('readers'):
        return bool(check_c13_readers(f['readers']))
    if f.get('history'):
        return bool(check_c13_history(f['kind'], f['args'], [(k, a) for k, a in f['later']], f['ro_spec']))
    return replay_generic(prop, f)


_search_C04_payload = search_C04


def search_C04(tier, rng):
    r = _search_C04_payload(tier, rng)
    r2 = search_merges('C04', tier, rng)
    r['evaluations'] += r2['evaluations']
    r['failures'] += r2['failures']
    r['summary']['short'] += '; %s' % r2['summary']['short']
    return r


_replay_C04_payload = replay_C04


def replay_C04(prop, f):
    if 'expect' in f:
        return _replay_C04_payload(prop, f)
    return replay_generic(prop, f)
