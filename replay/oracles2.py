"""Bounded real-code oracles for classification, collections and completion (C07-C11)."""
import os
import sys
import json
import hashlib
import itertools
import subprocess
import tempfile
import warnings
import xml.etree.ElementTree as ET

from mosromgr.mostypes import MosFile, RunningOrder, ElementAction
from mosromgr.moscollection import MosCollection
from mosromgr import exc as X
from scenarios import ro_xml, msg, story_xml, ENV, ABSENT

TABLE = {
    'roCreate': 'RunningOrder', 'roStorySend': 'StorySend', 'roStoryAppend': 'StoryAppend', 'roStoryDelete': 'StoryDelete',
    'roStoryInsert': 'StoryInsert', 'roStoryMove': 'StoryMove', 'roStoryReplace': 'StoryReplace', 'roItemDelete': 'ItemDelete',
    'roItemInsert': 'ItemInsert', 'roItemMoveMultiple': 'ItemMoveMultiple', 'roItemReplace': 'ItemReplace',
    'roReplace': 'RunningOrderReplace', 'roMetadataReplace': 'MetaDataReplace', 'roReadyToAir': 'ReadyToAir',
    'roDelete': 'RunningOrderEnd',
}
EA = {('REPLACE', False, False): 'EAStoryReplace', ('REPLACE', True, False): 'EAItemReplace', ('DELETE', False, False): 'EAStoryDelete',
      ('DELETE', False, True): 'EAItemDelete', ('INSERT', False, False): 'EAStoryInsert', ('INSERT', True, False): 'EAItemInsert',
      ('SWAP', False, False): 'EAStorySwap', ('SWAP', False, True): 'EAItemSwap', ('MOVE', False, False): 'EAStoryMove',
      ('MOVE', True, True): 'EAItemMove'}


def _sha(s):
    return hashlib.sha256(s.encode()).hexdigest()[:16]


def classify(doc, how, werr):
    """-> class name or 'exc:<Name>'"""
    with warnings.catch_warnings():
        warnings.simplefilter('error' if werr else 'ignore')
        try:
            if how == 'str':
                o = MosFile.from_string(doc)
            elif how == 'bytes':
                o = MosFile.from_string(doc.encode('utf-8'))
            else:
                with tempfile.NamedTemporaryFile('w', suffix='.xml', delete=False, encoding='utf-8') as f:
                    f.write(doc)
                try:
                    o = MosFile.from_file(f.name)
                finally:
                    os.unlink(f.name)
            return type(o).__name__
        except Exception as e:
            return 'exc:' + type(e).__name__


def c08_docs(tier):
    docs = []
    pre = '<mosID>a</mosID><ncsID>b</ncsID><messageID>7</messageID>'
    for tag, cls in TABLE.items():
        bodies = ['<%s/>' % tag, '<%s></%s>' % (tag, tag), '<%s><roID>R</roID></%s>' % (tag, tag), '<%s>  text  <roID>R</roID><x a="1"/></%s>' % (tag, tag)]
        for b in bodies:
            for env in ('<mos>%s%s</mos>', '<mos>%s<extra/>%s<trailer>t</trailer></mos>', '<mos>\n  %s\n  %s\n</mos>', '<root>%s%s</root>'):
                docs.append((env % (pre, b), cls))
            docs.append(('<mos>%s%s</mos>' % (b, pre), cls))
    ops = ['REPLACE', 'DELETE', 'INSERT', 'SWAP', 'MOVE', 'BOGUS', None]
    for op in ops:
        for tgt in (None, '', '<storyID>A</storyID>', '<storyID>A</storyID><itemID>1</itemID>', '<itemID>1</itemID>', '<storyID>A</storyID><itemID/>'):
            for src in (None, '', '<storyID>B</storyID>', '<itemID>2</itemID>', '<story><storyID>N</storyID></story>', '<item><itemID>9</itemID></item>',
                        '<itemID/><itemID>3</itemID>'):
                a = '' if op is None else ' operation="%s"' % op
                t = '' if tgt is None else '<element_target>%s</element_target>' % tgt
                s = '' if src is None else '<element_source>%s</element_source>' % src
                doc = '<mos>%s<roElementAction%s><roID>R</roID>%s%s</roElementAction></mos>' % (pre, a, t, s)
                ti = tgt is not None and '<itemID' in tgt
                si = src is not None and src.startswith('<itemID')
                exp = EA.get((op, ti, si)) if src is not None else None
                docs.append((doc, exp or 'exc:UnknownMosFileType'))
    for junk in ('<a/>', '<mos><messageID>1</messageID></mos>', '<mos><unknown><roID>R</roID></unknown></mos>', '<html><body/></html>'):
        docs.append((junk, 'exc:UnknownMosFileType'))
    # text around the document: white space before the root is allowed, before an XML declaration it is not, other characters never
    ok_doc = '<mos>%s<roStoryAppend><roID>R</roID></roStoryAppend></mos>' % pre
    for lead, trail, exp in ((' \n', '\n ', 'StoryAppend'), ('\ufeff', '', 'StoryAppend'), ('\u00a0', '', 'exc:MosInvalidXML'), ('', '\u00a0', 'exc:MosInvalidXML'),
                             ('\u2003\n', '', 'exc:MosInvalidXML'), ('', 'x', 'exc:MosInvalidXML')):
        docs.append((lead + ok_doc + trail, exp))
    for lead in ('\n', ' ', '\r\n\r\n', '\t'):
        docs.append((lead + '<?xml version="1.0" encoding="UTF-8"?>' + ok_doc, 'exc:MosInvalidXML'))
    docs.append(('<?xml version="1.0" encoding="UTF-8"?>\n' + ok_doc + '\n\n', 'StoryAppend'))
    for bad in ('', 'not xml', '<mos><roCreate></mos>', '<mos>', '<mos><a></b></mos>', '<?xml version="1.0"?>'):
        docs.append((bad, 'exc:MosInvalidXML'))
    return docs


def search_C08(tier, rng):
    docs = c08_docs(tier)
    n = 0
    failures = []
    for doc, exp in docs:
        res = {}
        for how in ('str', 'bytes', 'file'):
            for werr in (False, True):
                if how == 'file' and doc == '':
                    pass
                n += 1
                res[(how, werr)] = classify(doc, how, werr)
        bad = {k: v for k, v in res.items() if v != exp}
        if bad and len(failures) < 12:
            k = sorted(bad)[0]
            failures.append({'property': 'C08', 'fn': 'mosromgr.mostypes.MosFile._classify', 'doc': doc, 'expected': exp,
                             'observed': {'%s,%s' % (a, 'W-error' if b else 'default'): v for (a, b), v in res.items()},
                             'what': 'classification of %r via %s (%s) gave %s, expected %s' % (doc[:80], k[0], 'W-error' if k[1] else 'default', bad[k], exp),
                             'input_sha': _sha(doc), 'api': 'MosFile.from_string(doc) / from_file / bytes, warnings filter default|error'})
    # two recognised message elements: the outcome must not depend on their order (which of the two wins is the library's fixed priority)
    pre = '<mosID>a</mosID><ncsID>b</ncsID><messageID>7</messageID>'
    tags = list(TABLE) + ['roElementAction']
    pairs = list(itertools.combinations(tags, 2))
    if tier == 'quick':
        pairs = pairs[::3] + [('roCreate', 'roDelete'), ('roStorySend', 'roElementAction')]

    def el(t):
        if t == 'roElementAction':
            return '<roElementAction operation="SWAP"><roID>R</roID><element_source><storyID>A</storyID><storyID>B</storyID></element_source></roElementAction>'
        return '<%s><roID>R</roID></%s>' % (t, t)
    for a, b in pairs:
        d1 = '<mos>%s%s%s</mos>' % (pre, el(a), el(b))
        d2 = '<mos>%s%s<x/>%s</mos>' % (pre, el(b), el(a))
        for how in ('str', 'file'):
            n += 2
            r1, r2 = classify(d1, how, False), classify(d2, how, False)
            allowed = {TABLE.get(a, 'EAStorySwap'), TABLE.get(b, 'EAStorySwap')}
            what = None
            if r1 != r2:
                what = 'classification depends on sibling order: %s then %s gives %s, %s then %s gives %s' % (a, b, r1, b, a, r2)
            elif r1 not in allowed:
                what = 'document holding %s and %s classified as %s' % (a, b, r1)
            if what and len(failures) < 12:
                failures.append({'property': 'C08', 'fn': 'mosromgr.mostypes.MosFile._classify', 'doc': d1, 'doc2': d2, 'expected': 'same class for both orders',
                                 'what': what, 'input_sha': _sha(d1), 'api': 'MosFile.from_string(doc) vs MosFile.from_string(doc2)'})
                break
    return {'evaluations': n, 'distinct': len(docs) + 2 * len(pairs), 'failures': failures,
            'rule': 'every message element x 4 payload shapes (incl. empty element) x 5 envelopes; roElementAction: 7 operations x 5 target x 6 source '
                    'shapes; non-MOS and malformed documents; each via str, bytes and file under warning filters default and error; pairs of two recognised '
                    'message elements in both orders',
            'summary': {'short': '%d classifications of %d documents, %d failing' % (n, len(docs), len(failures)), 'bounded': True},
            'assumptions': []}


def replay_C08(prop, f):
    if 'doc2' in f:
        return classify(f['doc'], 'str', False) != classify(f['doc2'], 'str', False)
    for how in ('str', 'bytes', 'file'):
        for werr in (False, True):
            if classify(f['doc'], how, werr) != f['expected']:
                return True
    return False


# ------------------------------------------------------------------ collections
def mk_msgs(spec, roid_mixed=False):
    """spec: list of kinds with message ids"""
    out = []
    for k, (kind, mid) in enumerate(spec):
        roid = 'RO2' if (roid_mixed and k == len(spec) - 1) else 'RO1'
        if kind == 'roCreate':
            out.append(ro_xml(['A', 'B', 'C'], mid=mid, roid=roid, items={'A': ['1', '2']}))
        elif kind == 'roDelete':
            out.append(msg('RunningOrderEnd', mid=mid, roid=roid)[0])
        elif kind == 'append':
            out.append(msg('StoryAppend', mid=mid, roid=roid, new=['N%d' % mid])[0])
        elif kind == 'bad':   # fails to merge: unknown target
            out.append(msg('StoryReplace', mid=mid, roid=roid, target='ZZ', new=['Q'])[0])
        elif kind == 'delete':
            out.append(msg('StoryDelete', mid=mid, roid=roid, ids=['B'])[0])
        elif kind == 'move':
            out.append(msg('StoryMove', mid=mid, roid=roid, src='A', target='C')[0])
        elif kind == 'iteminsert':
            out.append(msg('ItemInsert', mid=mid, roid=roid, story='A', target='2', new=['n%d' % mid])[0])
        elif kind == 'roreplace':
            out.append(msg('RunningOrderReplace', mid=mid, roid=roid, new=['A', 'B', 'C', 'R%d' % mid])[0])
        elif kind == 'readytoair':
            out.append(msg('ReadyToAir', mid=mid, roid=roid)[0])
    return out


def c11_cases():
    for ncreate in (0, 1, 2):
        for ndelete in (0, 1, 2):
            for nother in (0, 1, 2):
                for mixed in (False, True):
                    for allow in (False, True):
                        spec = [('roCreate', 10 + i) for i in range(ncreate)] + \
                            [(('readytoair', 5), ('roreplace', 20))[i] for i in range(nother)] + \
                            [('roDelete', 90 + i) for i in range(ndelete)]
                        if mixed and len(spec) < 2:
                            continue
                        yield spec, mixed, allow


def c11_expected(spec, mixed, allow):
    nc = sum(1 for k, _ in spec if k == 'roCreate')
    nd = sum(1 for k, _ in spec if k == 'roDelete')
    return len(spec) > 0 and not mixed and nc == 1 and nd <= 1 and (allow or nd == 1)


def c11_run_batch():
    """executed in this interpreter (possibly under -O): list of [accepted?, exception name, reader ids]"""
    out = []
    import logging
    logging.disable(logging.CRITICAL)
    for spec, mixed, allow in c11_cases():
        docs = mk_msgs(spec, mixed)
        try:
            mc = MosCollection.from_strings(docs, allow_incomplete=allow)
            out.append([True, None, mc.ro.message_id, [r.message_id for r in mc.mos_readers]])
        except Exception as e:
            out.append([False, type(e).__name__, None, None])
    return out


def search_C11(tier, rng):
    cases = list(c11_cases())
    failures = []
    n = 0
    for flag in ('', '-O'):
        if flag == '':
            res = c11_run_batch()
        else:
            env = dict(os.environ)
            p = subprocess.run([sys.executable, '-O', '-c',
                                'import sys,json; sys.path.insert(0, %r); import oracles2; print(json.dumps(oracles2.c11_run_batch()))'
                                % os.path.dirname(os.path.abspath(__file__))], capture_output=True, text=True, env=env)
            if p.returncode != 0:
                return {'summary': {'short': 'C11 -O batch crashed', 'stderr': p.stderr[-1500:]}, 'failures': [], 'crashed': True}
            res = json.loads(p.stdout.strip().splitlines()[-1])
        for (spec, mixed, allow), r in zip(cases, res):
            n += 1
            exp = c11_expected(spec, mixed, allow)
            what = None
            if r[0] != exp:
                what = 'accepted=%s, expected %s' % (r[0], exp)
            elif not r[0] and r[1] != 'InvalidMosCollection':
                what = 'rejected with %s instead of InvalidMosCollection' % r[1]
            elif r[0]:
                cre = [m for k, m in spec if k == 'roCreate'][0]
                others = sorted(m for k, m in spec if k != 'roCreate')
                if r[2] != cre or r[3] != others:
                    what = 'ro/readers after acceptance are %s/%s, expected %s/%s' % (r[2], r[3], cre, others)
            if what and len(failures) < 12:
                failures.append({'property': 'C11', 'fn': 'mosromgr.moscollection.MosCollection.__init__', 'spec': spec, 'mixed_ro_ids': mixed,
                                 'allow_incomplete': allow, 'interpreter_flag': flag or 'default', 'what': '%s (%s) under python %s' % (what, spec, flag or 'default'),
                                 'input_sha': _sha(json.dumps([spec, mixed, allow, flag])),
                                 'api': 'MosCollection.from_strings(docs, allow_incomplete=...)'})
    return {'evaluations': n, 'distinct': len(cases) * 2, 'failures': failures,
            'rule': 'all multisets of 0..2 roCreate x 0..2 roDelete x 0..2 others x same/mixed roID x allow_incomplete, in this interpreter and in a fresh python -O',
            'summary': {'short': '%d collection constructions (default and -O), %d failing' % (n, len(failures)), 'bounded': True}, 'assumptions': []}


def replay_C11(prop, f):
    docs = mk_msgs([tuple(x) for x in f['spec']], f['mixed_ro_ids'])
    code = ('import sys,json,logging; logging.disable(logging.CRITICAL); sys.path.insert(0, %r); import oracles2\n'
            'from mosromgr.moscollection import MosCollection\n'
            'docs=json.loads(sys.stdin.read())\n'
            'try:\n  MosCollection.from_strings(docs, allow_incomplete=%r); print("ACC")\n'
            'except Exception as e: print("REJ", type(e).__name__)\n') % (os.path.dirname(os.path.abspath(__file__)), f['allow_incomplete'])
    args = [sys.executable] + (['-O'] if f['interpreter_flag'] == '-O' else []) + ['-c', code]
    p = subprocess.run(args, input=json.dumps(docs), capture_output=True, text=True)
    out = p.stdout.strip().split()
    exp = c11_expected([tuple(x) for x in f['spec']], f['mixed_ro_ids'], f['allow_incomplete'])
    if exp:
        return out[:1] != ['ACC']
    return out != ['REJ', 'InvalidMosCollection']


def hand_fold(docs, strict):
    """reference: add each message, freshly parsed, in ascending message id order"""
    objs = sorted((MosFile.from_string(d) for d in docs), key=lambda o: o.message_id)
    ro = [o for o in objs if isinstance(o, RunningOrder) and type(o).__name__ == 'RunningOrder'][0]
    nfail = 0
    err = None
    for o in objs:
        if o is ro:
            continue
        try:
            with warnings.catch_warnings():
                warnings.simplefilter('ignore')
                ro += MosFile.from_string(str(o))
        except X.MosMergeError as e:
            nfail += 1
            if strict:
                err = type(e).__name__
                break
    return str(ro), nfail, err


def c09_sequences(tier):
    kinds = ['append', 'bad', 'delete', 'move', 'iteminsert', 'roreplace']
    L = 3 if tier == 'quick' else 4
    for n in range(0, L + 1):
        for seq in itertools.product(kinds, repeat=n):
            for end in ('none', 'last', 'middle'):
                spec = [('roCreate', 1)]
                mids = list(range(2, 2 + n))
                body = [(k, m) for k, m in zip(seq, mids)]
                if end == 'last':
                    body.append(('roDelete', 99))
                elif end == 'middle' and n >= 1:
                    body.insert(n // 2, ('roDelete', body[n // 2][1]))
                    body = [(k, i + 2) for i, (k, _) in enumerate(body)]
                elif end == 'middle':
                    continue
                yield spec + body
    # every kind of message (roReadyToAir included: it carries nothing, but is still a message) after the roDelete
    for k in kinds + ['readytoair']:
        yield [('roCreate', 1), ('roDelete', 2), (k, 3)]
        yield [('roCreate', 1), (k, 2), ('roDelete', 3), (k, 4), ('readytoair', 5)]
        yield [('roCreate', 1), ('readytoair', 2), (k, 3)]


def _c09_collection(docs, order):
    """'shared-readers': one list of MosReaders serves two collections and the first one is merged before the second is
    built and merged - readers restore a fresh object on every access, so the second must behave like the only one"""
    if order != 'shared-readers':
        return MosCollection.from_strings(docs, allow_incomplete=True)
    from mosromgr.moscollection import MosReader
    readers = [MosReader.from_string(d) for d in docs]
    first = MosCollection(list(readers), allow_incomplete=True)
    try:
        with warnings.catch_warnings():
            warnings.simplefilter('ignore')
            first.merge(strict=False)
    except X.MosRoMgrException:
        pass
    return MosCollection(list(readers), allow_incomplete=True)


def search_C09(tier, rng):
    n = 0
    failures = []
    distinct = set()
    for spec in c09_sequences(tier):
        docs = mk_msgs(spec)
        for strict in (True, False):
            for order in ('given', 'reversed', 'shared-readers'):
                n += 1
                distinct.add(json.dumps([spec, strict]))
                d2 = list(reversed(docs)) if order == 'reversed' else docs
                exp_str, exp_fail, exp_err = hand_fold(docs, strict)
                err = None
                with warnings.catch_warnings(record=True) as wl:
                    warnings.simplefilter('always')
                    try:
                        mc = _c09_collection(d2, order)
                        mc.merge(strict=strict)
                    except Exception as e:
                        err = type(e).__name__
                nw = sum(1 for w in wl if issubclass(w.category, X.MosMergeNonStrictWarning))
                what = None
                if err != exp_err:
                    what = 'merge raised %s, hand fold %s' % (err, exp_err)
                elif str(mc) != exp_str:
                    what = 'collection merge result differs from adding the messages one by one'
                elif not strict and nw != exp_fail:
                    what = '%d MosMergeNonStrictWarning for %d failing messages' % (nw, exp_fail)
                elif strict and nw:
                    what = 'strict merge emitted MosMergeNonStrictWarning'
                if what and len(failures) < 10:
                    prop = 'C10' if (order == 'reversed' and what.startswith('collection merge result')) else 'C09'
                    failures.append({'property': prop, 'fn': 'mosromgr.moscollection.MosCollection.merge', 'spec': spec, 'strict': strict,
                                     'order': order, 'what': '%s (%s, strict=%s, %s order)' % (what, spec, strict, order),
                                     'input_sha': _sha(json.dumps([spec, strict, order])),
                                     'api': 'MosCollection.from_strings(docs, allow_incomplete=True).merge(strict=...)' if order != 'shared-readers' else
                                            'readers = [MosReader.from_string(d) ...]; MosCollection(readers).merge(strict=False); MosCollection(readers).merge(strict=...)'})
    return {'evaluations': n, 'distinct': len(distinct), 'failures': failures,
            'rule': 'all sequences of <= %d messages over {append, failing replace, delete, move, item insert} with the roDelete nowhere / last / in the middle, '
                    'strict and non-strict, supplied in given and reversed order, and through a reader list already used by another, merged, collection; oracle = hand fold over freshly parsed messages' % (3 if tier == 'quick' else 4),
            'summary': {'short': '%d collection merges vs hand fold, %d failing' % (n, len(failures)), 'bounded': True}, 'assumptions': []}


def replay_C09(prop, f):
    spec = [tuple(x) for x in f['spec']]
    docs = mk_msgs(spec)
    d2 = list(reversed(docs)) if f['order'] == 'reversed' else docs
    exp_str, exp_fail, exp_err = hand_fold(docs, f['strict'])
    err = None
    with warnings.catch_warnings(record=True) as wl:
        warnings.simplefilter('always')
        try:
            mc = _c09_collection(d2, f['order'])
            mc.merge(strict=f['strict'])
        except Exception as e:
            err = type(e).__name__
    nw = sum(1 for w in wl if issubclass(w.category, X.MosMergeNonStrictWarning))
    return err != exp_err or str(mc) != exp_str or (not f['strict'] and nw != exp_fail)


def search_C10(tier, rng):
    n = 0
    failures = []
    base = [('roCreate', 100), ('append', 9), ('append', 10), ('delete', 101), ('move', 1000), ('iteminsert', 99)]
    # ids of mixed digit counts: the roCreate must still be the collection's ro; messages applied in numeric order
    base = [('roCreate', 5), ('append', 9), ('append', 10), ('delete', 100), ('iteminsert', 99), ('move', 1000)]
    docs = mk_msgs(base)
    ref = None
    perms = list(itertools.permutations(range(len(docs))))
    if tier == 'quick':
        perms = perms[::7]
    for perm in perms:
        d2 = [docs[i] for i in perm]
        for how in ('strings', 'files'):
            n += 1
            with warnings.catch_warnings():
                warnings.simplefilter('ignore')
                if how == 'strings':
                    mc = MosCollection.from_strings(d2, allow_incomplete=True)
                else:
                    tmp = tempfile.mkdtemp(prefix='c10', dir='/var/tmp')
                    paths = []
                    for i, d in enumerate(d2):
                        pth = os.path.join(tmp, 'f%d.mos.xml' % i)
                        open(pth, 'w').write(d)
                        paths.append(pth)
                    try:
                        mc = MosCollection.from_files(paths, allow_incomplete=True)
                    finally:
                        pass
                ids = [r.message_id for r in mc.mos_readers]
                mc.merge()
                if how == 'files':
                    import shutil
                    shutil.rmtree(tmp)
            res = (ids, str(mc))
            if ref is None:
                ref = res
            what = None
            if ids != sorted(ids):
                what = 'readers not in ascending numeric message id order: %s' % ids
            elif res != ref:
                what = 'merge result depends on the order in which the inputs were supplied'
            if what and len(failures) < 6:
                failures.append({'property': 'C10', 'fn': 'mosromgr.moscollection.MosCollection.from_strings', 'perm': list(perm), 'how': how,
                                 'what': '%s (permutation %s via %s)' % (what, list(perm), how), 'input_sha': _sha(json.dumps([list(perm), how])),
                                 'api': 'MosCollection.from_%s(permuted docs)' % how})
    # from_s3: the listing order (byte order of the keys) is not the numeric message id order
    from oracles3 import FakeS3
    import mosromgr.utils.s3 as s3mod
    saved = s3mod.s3
    try:
        objects = {}
        for (kind, mid), d in sorted(zip(base, docs), key=lambda x: str(x[0][1])):
            objects['prog/%d-%s.mos.xml' % (mid, kind)] = d.encode('utf-8')
        s3mod.s3 = FakeS3(objects, 2)
        n += 1
        with warnings.catch_warnings():
            warnings.simplefilter('ignore')
            what = None
            try:
                mc = MosCollection.from_s3(bucket_name='bk', prefix='prog/', allow_incomplete=True)
                ids = [r.message_id for r in mc.mos_readers]
                mc.merge()
                if ids != sorted(ids):
                    what = 'from_s3 readers not in ascending numeric message id order: %s' % ids
                elif (ids, str(mc)) != ref:
                    what = 'from_s3 gives a different result from from_strings over the same contents'
            except Exception as e:
                what = 'from_s3 over keys listed in byte order failed: %s' % type(e).__name__
        if what:
            failures.append({'property': 'C10', 'fn': 'mosromgr.moscollection.MosCollection.from_s3', 'perm': sorted(objects), 'how': 's3',
                             'what': what, 'input_sha': _sha('s3order'), 'api': 'MosCollection.from_s3 over a fake bucket'})
    finally:
        s3mod.s3 = saved
    # sorting MosFile objects: every message kind (roCreate / roReplace included, not necessarily with the lowest id), pairwise and sorted()
    for spec in (base, [('append', 3), ('roCreate', 7), ('roreplace', 20), ('delete', 12), ('readytoair', 100), ('roDelete', 9), ('move', 21)],
                 [('roreplace', 50), ('append', 8), ('roCreate', 30), ('iteminsert', 200)]):
        objs = [MosFile.from_string(d) for d in mk_msgs(spec)]
        n += 1
        what = None
        if [o.message_id for o in sorted(reversed(objs))] != sorted(o.message_id for o in objs) \
                or [o.message_id for o in sorted(objs)] != sorted(o.message_id for o in objs):
            what = 'sorted(MosFile objects) is not numeric message id order: %s' % [(type(o).__name__, o.message_id) for o in sorted(objs)]
        else:
            for a in objs:
                for b in objs:
                    n += 1
                    if (a < b) != (a.message_id < b.message_id) or (a > b) != (a.message_id > b.message_id):
                        what = '%s(%d) < %s(%d) is %s' % (type(a).__name__, a.message_id, type(b).__name__, b.message_id, a < b)
        if what:
            failures.append({'property': 'C10', 'fn': 'mosromgr.mostypes.MosFile.__lt__', 'what': what,
                             'input_sha': _sha('sort' + json.dumps(spec)), 'perm': [], 'how': 'sort', 'spec': spec,
                             'api': 'sorted(MosFile.from_string(d) for d in docs)'})
    return {'evaluations': n, 'distinct': len(perms) * 2, 'failures': failures,
            'rule': 'permutations of a 6-message list with message ids 5, 9, 10, 99, 100, 1000 via from_strings and from_files',
            'summary': {'short': '%d permuted collections, %d failing' % (n, len(failures)), 'bounded': True}, 'assumptions': []}


def replay_C10(prop, f):
    r = search_C10('thorough', None)
    return any(x['input_sha'] == f['input_sha'] for x in r['failures'])


def search_C07(tier, rng):
    n = 0
    failures = []
    kinds = ['StoryAppend', 'StoryInsert', 'StoryReplace', 'StoryDelete', 'StoryMove', 'StorySend', 'ItemInsert', 'ItemReplace', 'ItemDelete',
             'ItemMoveMultiple', 'EAStoryInsert', 'EAStoryReplace', 'EAStoryDelete', 'EAStoryMove', 'EAStorySwap', 'EAItemInsert',
             'EAItemReplace', 'EAItemDelete', 'EAItemMove', 'EAItemSwap', 'ReadyToAir', 'RunningOrderEnd', 'RunningOrderReplace', 'MetaDataReplace']
    args = {'StoryAppend': dict(new=['N']), 'StoryInsert': dict(target='B', new=['N']), 'StoryReplace': dict(target='B', new=['N']),
            'StoryDelete': dict(ids=['B']), 'StoryMove': dict(src='A', target='C'), 'StorySend': dict(target='B'),
            'ItemInsert': dict(story='A', target='1', new=['n']), 'ItemReplace': dict(story='A', target='1', new=['n']),
            'ItemDelete': dict(story='A', ids=['1']), 'ItemMoveMultiple': dict(story='A', target='1', ids=['2']),
            'EAStoryInsert': dict(target='B', new=['N']), 'EAStoryReplace': dict(target='B', new=['N']), 'EAStoryDelete': dict(ids=['B']),
            'EAStoryMove': dict(target='C', ids=['A']), 'EAStorySwap': dict(ids=['A', 'B']), 'EAItemInsert': dict(story='A', target='1', new=['n']),
            'EAItemReplace': dict(story='A', target='1', new=['n']), 'EAItemDelete': dict(story='A', ids=['1']),
            'EAItemMove': dict(story='A', target='1', ids=['2']), 'EAItemSwap': dict(story='A', ids=['1', '2']), 'ReadyToAir': {},
            'RunningOrderEnd': {}, 'RunningOrderReplace': dict(new=['X']), 'MetaDataReplace': dict(body='<roSlug>z</roSlug>')}
    for prefix in ([], ['StoryAppend'], ['StoryMove', 'ItemDelete'], ['RunningOrderReplace'], ['MetaDataReplace', 'StorySend']):
        ro = RunningOrder.from_string(ro_xml(['A', 'B', 'C'], items={'A': ['1', '2']}, meta_layout='all'))
        with warnings.catch_warnings():
            warnings.simplefilter('ignore')
            for k in prefix:
                a = dict(args[k])
                if k == 'RunningOrderReplace':
                    a = dict(new=['A', 'B', 'C'])
                ro += MosFile.from_string(msg(k, **a)[0])
            n += 1
            if ro.completed:
                failures.append({'property': 'C07', 'fn': 'mosromgr.mostypes.RunningOrder.__add__', 'prefix': prefix, 'kind': None,
                                 'what': 'running order reported completed without a roDelete after %s' % prefix, 'input_sha': _sha(json.dumps(prefix))})
            content_before = ET.tostring(ro.xml.find('roCreate'), encoding='unicode')
            ro += MosFile.from_string(msg('RunningOrderEnd')[0])
        n += 1
        if not ro.completed or ET.tostring(ro.xml.find('roCreate'), encoding='unicode') != content_before:
            failures.append({'property': 'C07', 'fn': 'mosromgr.mostypes.RunningOrderEnd.merge', 'prefix': prefix, 'kind': 'RunningOrderEnd',
                             'what': 'roDelete did not complete the running order or changed its content', 'input_sha': _sha(json.dumps(prefix) + 'end')})
        rt = MosFile.from_string(str(ro))
        n += 1
        if type(rt).__name__ != 'RunningOrder' or not rt.completed or str(rt) != str(ro):
            failures.append({'property': 'C07', 'fn': 'mosromgr.mostypes.MosFile._classify', 'prefix': prefix, 'kind': 'roundtrip',
                             'what': 'completed running order read back as %s completed=%s' % (type(rt).__name__, getattr(rt, 'completed', None)),
                             'input_sha': _sha(json.dumps(prefix) + 'rt')})
        for k in kinds:
            n += 1
            before = str(ro)
            try:
                with warnings.catch_warnings():
                    warnings.simplefilter('ignore')
                    ro += MosFile.from_string(msg(k, **args[k])[0])
                res = 'accepted'
            except Exception as e:
                res = type(e).__name__
            if res != 'MosCompletedMergeError' or str(ro) != before:
                if len(failures) < 12:
                    failures.append({'property': 'C07', 'fn': 'mosromgr.mostypes.RunningOrder.__add__', 'prefix': prefix, 'kind': k,
                                     'what': 'adding %s to a completed running order: %s, changed=%s' % (k, res, str(ro) != before),
                                     'input_sha': _sha(json.dumps(prefix) + k)})
    # the collection reports the completion of its running order (not a summary of its readers): before the merge, after it, after a
    # strict merge that stopped at a failing message, and for a collection built over an already completed running order
    for spec in ([('roCreate', 1), ('append', 2), ('roDelete', 9)], [('roCreate', 1), ('bad', 2), ('roDelete', 9)], [('roCreate', 1), ('append', 2)],
                 [('roCreate', 1), ('roDelete', 5), ('append', 7)]):
        docs = mk_msgs(spec)
        for strict in (True, False):
            stages = []
            with warnings.catch_warnings():
                warnings.simplefilter('ignore')
                mc = MosCollection.from_strings(docs, allow_incomplete=True)
                stages.append(('before merge', mc))
                err = None
                try:
                    mc.merge(strict=strict)
                    stages.append(('after merge', mc))
                except Exception as e:
                    err = type(e).__name__
                    stages.append(('after the merge stopped at a failing message', mc))
                # terminal: in strict mode a message behind the roDelete, and any message of a second merge() of a completed
                # collection, is refused with MosCompletedMergeError itself (as `ro += msg` does), not with some other error
                kinds_ = [k for k, _ in spec]
                checks_ = []
                if strict and 'roDelete' in kinds_ and kinds_.index('roDelete') < len(kinds_) - 1 and 'bad' not in kinds_:
                    checks_.append(('strict merge of a message behind the roDelete', err))
                if 'roDelete' in kinds_ and len(kinds_) > 2 and 'mosromgrmeta' in str(mc.ro):
                    err2 = None
                    try:
                        mc.merge(strict=True)
                    except Exception as e:
                        err2 = type(e).__name__
                    checks_.append(('second strict merge() of the completed collection', err2))
                for label_, got_ in checks_:
                    n += 1
                    if got_ != 'MosCompletedMergeError':
                        failures.append({'property': 'C07', 'fn': 'mosromgr.moscollection.MosCollection.merge', 'prefix': spec, 'kind': label_,
                                         'what': '%s raised %s, not MosCompletedMergeError (%s, first merge strict=%s)' % (label_, got_, spec, strict),
                                         'input_sha': _sha(json.dumps([spec, strict, label_]))})
            for label, c in stages[-1:] + [('before merge', MosCollection.from_strings(docs, allow_incomplete=True))]:
                n += 1
                real = 'mosromgrmeta' in str(c.ro)
                if c.completed != real or c.completed != c.ro.completed or str(c) != str(c.ro):
                    failures.append({'property': 'C07', 'fn': 'mosromgr.moscollection.MosCollection.completed', 'prefix': spec, 'kind': label,
                                     'what': 'collection %s (strict=%s) reports completed=%s, its running order %s a roDelete (%s)' % (
                                         label, strict, c.completed, 'records' if real else 'does not record', spec),
                                     'input_sha': _sha(json.dumps([spec, strict, label]))})
    done = RunningOrder.from_string(ro_xml(['A'], mid=1))
    done += MosFile.from_string(msg('RunningOrderEnd', mid=3)[0])
    n += 1
    try:
        with warnings.catch_warnings():
            warnings.simplefilter('ignore')
            c = MosCollection.from_strings([str(done), msg('StoryAppend', mid=2, new=['N'])[0]], allow_incomplete=True)
        if not c.completed:
            failures.append({'property': 'C07', 'fn': 'mosromgr.moscollection.MosCollection.completed', 'prefix': [], 'kind': 'completed ro',
                             'what': 'a collection over an already completed running order reports completed=False', 'input_sha': _sha('completed-ro')})
    except X.MosRoMgrException:
        pass
    return {'evaluations': n, 'distinct': n, 'failures': failures,
            'rule': '5 merge prefixes x roDelete x every one of the 24 message types afterwards; round trip of the completed running order; '
                    'MosCollection.completed against the document before / after / after an aborted merge',
            'summary': {'short': '%d completion checks, %d failing' % (n, len(failures)), 'bounded': True}, 'assumptions': []}


def replay_C07(prop, f):
    r = search_C07('thorough', None)
    return any(x['input_sha'] == f['input_sha'] for x in r['failures'])


def search_C12_classification(tier, rng):
    """well-formed documents never fail with a built-in exception"""
    n = 0
    failures = []
    for doc, exp in c08_docs(tier):
        if exp == 'exc:MosInvalidXML':
            continue
        n += 1
        r = classify(doc, 'str', False)
        if r.startswith('exc:') and r not in ('exc:UnknownMosFileType',):
            if len(failures) < 6:
                failures.append({'property': 'C12', 'fn': 'mosromgr.mostypes.MosFile._classify', 'doc': doc, 'expected': exp,
                                 'what': 'classifying a well-formed document raised %s' % r[4:], 'input_sha': _sha(doc),
                                 'api': 'MosFile.from_string(doc)'})
    return n, failures


# ------------------------------------------------------------------ C20 accessors / inspect
import io
import contextlib
import re as _re

ACCESSORS = {  # class -> {accessor: (kind, where, idtag, tag)}
    'StorySend': {'story': ('first', None, 'storyID', None)},
    'StoryAppend': {'stories': ('carried', None, 'storyID', 'story')},
    'StoryDelete': {'stories': ('ids', None, 'storyID', None)},
    'ItemDelete': {'story': ('first', None, 'storyID', None), 'items': ('ids', None, 'itemID', None)},
    'StoryInsert': {'target_story': ('first', None, 'storyID', None), 'source_stories': ('carried', None, 'storyID', 'story')},
    'ItemInsert': {'story': ('first', None, 'storyID', None), 'item': ('first', None, 'itemID', None), 'items': ('carried', None, 'itemID', 'item')},
    'StoryMove': {'source_story': ('nth0', None, 'storyID', None), 'target_story': ('nth1', None, 'storyID', None)},
    'ItemMoveMultiple': {'story': ('first', None, 'storyID', None), 'item': ('last', None, 'itemID', None), 'items': ('butlast', None, 'itemID', None)},
    'StoryReplace': {'story': ('first', None, 'storyID', None), 'stories': ('carried', None, 'storyID', 'story')},
    'ItemReplace': {'story': ('first', None, 'storyID', None), 'item': ('first', None, 'itemID', None), 'items': ('carried', None, 'itemID', 'item')},
    'EAStoryReplace': {'story': ('first', 'element_target', 'storyID', None), 'stories': ('carried', 'element_source', 'storyID', 'story')},
    'EAItemReplace': {'story': ('first', 'element_target', 'storyID', None), 'item': ('first', 'element_target', 'itemID', None), 'items': ('carried', 'element_source', 'itemID', 'item')},
    'EAStoryDelete': {'stories': ('ids', 'element_source', 'storyID', None)},
    'EAItemDelete': {'story': ('first', 'element_target', 'storyID', None), 'items': ('ids', 'element_source', 'itemID', None)},
    'EAStoryInsert': {'story': ('first', 'element_target', 'storyID', None), 'stories': ('carried', 'element_source', 'storyID', 'story')},
    'EAItemInsert': {'story': ('first', 'element_target', 'storyID', None), 'item': ('first', 'element_target', 'itemID', None), 'items': ('carried', 'element_source', 'itemID', 'item')},
    'EAStorySwap': {'stories': ('ids', 'element_source', 'storyID', None)},
    'EAItemSwap': {'story': ('first', 'element_target', 'storyID', None), 'items': ('ids', 'element_source', 'itemID', None)},
    'EAStoryMove': {'story': ('first?', 'element_target', 'storyID', None), 'stories': ('ids', 'element_source', 'storyID', None)},
    'EAItemMove': {'story': ('first', 'element_target', 'storyID', None), 'item': ('first', 'element_target', 'itemID', None), 'items': ('ids', 'element_source', 'itemID', None)},
}


def _expected_ids(doc, cls, acc):
    kind, where, idtag, tag = ACCESSORS[cls][acc]
    root = ET.fromstring(doc)
    base = [c for c in root if c.tag.startswith('ro')][0]
    P = base if where is None else base.find(where)
    if P is None:
        return None
    ids = [e.text for e in P.findall(idtag)]
    if kind in ('first', 'first?'):
        return [ids[0] if ids else None]
    if kind == 'ids':
        return ids
    if kind == 'carried':
        return [(e.find(idtag).text if e.find(idtag) is not None else None) for e in P.findall(tag)]
    if kind == 'nth0':
        return [ids[0]] if ids else None
    if kind == 'nth1':
        return [ids[1]] if len(ids) > 1 and ids[1] is not None else None
    if kind == 'last':
        return [ids[-1]] if ids and ids[-1] is not None else None
    if kind == 'butlast':
        return ids[:-1]


def _pretty(doc):
    return _re.sub(r'><', '>\n    <', doc)


def c20_messages(tier):
    from scenarios import refs
    S = ['A', 'B', 'C']
    I = ['1', '2']
    R = ['A', 'ZZ', None]
    out = []
    for t in R + [ABSENT]:
        for ids in ([['A'], ['A', 'B'], [None, 'A'], ['A', None], ['A', 'A']]):
            out.append(('EAStoryMove', dict(target=t, ids=ids)))
        if t != ABSENT:
            out.append(('StoryInsert', dict(target=t, new=['N1', 'N2'])))
            out.append(('StoryReplace', dict(target=t, new=['N1', 'N2'])))
            out.append(('EAStoryReplace', dict(target=t, new=['N1'])))
            out.append(('StorySend', dict(target=t)))
        out.append(('EAStoryInsert', dict(target=t, new=['N1', 'N2'])))
        for s in R:
            out.append(('StoryMove', dict(src=s, target=t)))
    for ids in ([['A'], ['A', 'B', 'C'], [None], ['A', None, 'B']]):
        out.append(('StoryDelete', dict(ids=ids)))
        out.append(('EAStoryDelete', dict(ids=ids)))
    for a, b in itertools.product(R, repeat=2):
        out.append(('EAStorySwap', dict(ids=[a, b])))
        out.append(('EAItemSwap', dict(story='A', ids=[a, b])))
    out.append(('StoryAppend', dict(new=['N1', 'N2'])))
    for st in R:
        for t in ['1', 'zz', None]:
            out.append(('ItemInsert', dict(story=st, target=t, new=['n1', 'n2'])))
            out.append(('EAItemInsert', dict(story=st, target=t, new=['n1'])))
            out.append(('ItemReplace', dict(story=st, target=t, new=['n1'])))
            out.append(('EAItemReplace', dict(story=st, target=t, new=['n1', 'n2'])))
            for ids in (['1'], ['1', '2'], [None, '2']):
                out.append(('ItemMoveMultiple', dict(story=st, target=t, ids=ids)))
                out.append(('EAItemMove', dict(story=st, target=t, ids=ids)))
        for ids in (['1'], ['1', None, '2']):
            out.append(('ItemDelete', dict(story=st, ids=ids)))
            out.append(('EAItemDelete', dict(story=st, ids=ids)))
    return out


def check_c20(kind, a, pretty):
    doc, fn = msg(kind, **a)
    if pretty:
        doc = _pretty(doc)
    viol = []
    try:
        m = MosFile.from_string(doc)
    except Exception as e:
        return ['classification raised %s' % type(e).__name__], doc
    cls = type(m).__name__
    for acc in ACCESSORS.get(cls, {}):
        exp = _expected_ids(doc, cls, acc)
        try:
            v = getattr(m, acc)
        except Exception as e:
            viol.append('%s.%s raised %s' % (cls, acc, type(e).__name__))
            continue
        if v is None:
            got = None
        elif isinstance(v, (list, tuple)):
            got = [x.id for x in v]
        else:
            got = [v.id]
        ok = (got == exp) or (exp is None and got == [None]) or (got is None and exp == [None])
        if not ok:
            viol.append('%s.%s exposes ids %s, the message names %s' % (cls, acc, got, exp))
    buf = io.StringIO()
    try:
        with contextlib.redirect_stdout(buf):
            m.inspect()
        outp = buf.getvalue()
        for acc, (k, where, idtag, tag) in ACCESSORS.get(cls, {}).items():
            if k in ('ids', 'carried', 'butlast'):
                for i in (_expected_ids(doc, cls, acc) or []):
                    if i is not None and i not in outp:
                        viol.append('%s.inspect() does not mention %s %s' % (cls, idtag, i))
    except Exception as e:
        viol.append('%s.inspect() raised %s' % (cls, type(e).__name__))
    return viol, doc


def search_C20(tier, rng):
    n = 0
    failures = []
    msgs = c20_messages(tier)
    msgs.append(('RunningOrderReplace', dict(new=['X1'])))
    msgs.append(('MetaDataReplace', dict(body='<roSlug>x</roSlug><roChannel/>')))
    msgs.append(('RunningOrderEnd', {}))
    msgs.append(('ReadyToAir', {}))
    for kind, a in msgs:
        for pretty in (False, True):
            n += 1
            viol, doc = check_c20(kind, a, pretty)
            for w in viol:
                if len(failures) < 12:
                    failures.append({'property': 'C20', 'fn': 'mosromgr.mostypes.%s' % kind, 'kind': kind, 'args': a, 'pretty': pretty, 'doc': doc,
                                     'what': w + (' (pretty-printed)' if pretty else ' (compact)'), 'input_sha': _sha(doc),
                                     'api': 'm = MosFile.from_string(doc); accessors; m.inspect()'})
    return {'evaluations': n, 'distinct': n, 'failures': failures,
            'rule': 'every message class x targets in {existing, unknown, blank, absent} x source lists incl. blank / repeated ids x compact and pretty-printed XML; '
                    'oracle = ids read directly from the message text',
            'summary': {'short': '%d messages: accessors and inspect() vs message text, %d failing' % (n, len(failures)), 'bounded': True}, 'assumptions': []}


def replay_C20(prop, f):
    viol, _ = check_c20(f['kind'], f['args'], f['pretty'])
    return bool(viol)
