#!/venv/bin/python
"""
Bounded check of the *real* code (public API only) against an independent
reading of the properties.  Runs under /venv/bin/python, imports mosromgr from
/repo (or from $MOSROMGR_SRC via PYTHONPATH).  It is the counterexample source of
the deductive checks (a failing input found here is replayable) and the CPython
cross-check of proved clauses.  It is *bounded* and never counted as proof.

  run_real.py search <Cnn> <quick|thorough> <seed>   -> JSON on stdout
  run_real.py replay <Cnn>   (failure JSON on stdin) -> exit 1 if it still fails
"""
import sys
import os
import json
import hashlib
import itertools
import random
import warnings
import copy
import io
import xml.etree.ElementTree as ET

sys.path.insert(0, os.path.dirname(os.path.abspath(__file__)))
import logging
logging.disable(logging.CRITICAL)

from mosromgr.mostypes import MosFile, RunningOrder
from mosromgr import exc as X

from scenarios import merge_cases, ro_xml, describe
import oracles


def sha(obj):
    return hashlib.sha256(json.dumps(obj, sort_keys=True).encode()).hexdigest()[:16]


def search(prop, tier, seed):
    rng = random.Random(seed)
    fn = getattr(oracles, 'search_' + prop, None)
    if fn is None:
        return {'summary': {'short': 'no bounded real-code check for %s' % prop}, 'failures': [], 'evaluations': 0, 'distinct': 0}
    return fn(tier, rng)


def replay(prop, failure):
    fn = getattr(oracles, 'replay_' + prop, None) or oracles.replay_generic
    return fn(prop, failure)


if __name__ == '__main__':
    cmd = sys.argv[1]
    if cmd == 'search':
        r = search(sys.argv[2], sys.argv[3], int(sys.argv[4]))
        json.dump(r, sys.stdout)
    elif cmd == 'replay':
        f = json.load(sys.stdin)
        still = replay(sys.argv[2], f)
        sys.exit(1 if still else 0)
