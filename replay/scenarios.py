"""Small-scope generators of running orders and messages (real XML strings)."""
import itertools

ENV = '<mos><mosID>M</mosID><ncsID>N</ncsID><messageID>%d</messageID>%s</mos>'


def story_xml(sid, items=(), paras=True, dur=True, tag='story', extra=''):
    body = ''
    for k, it in enumerate(items):
        if paras:
            body += '<p>para %s.%d</p>' % (sid, k)
        body += '<item>%s<itemSlug>slug %s</itemSlug><objID>o%s</objID></item>' % ('<itemID/>' if it == '' else '<itemID>%s</itemID>' % it, it, it)
    md = ''
    if dur in ('tt', 'mt'):
        md = ('<mosExternalMetadata><mosSchema>http://x/s</mosSchema><mosPayload><%s>%d</%s></mosPayload></mosExternalMetadata>' % (
            'TextTime' if dur == 'tt' else 'MediaTime', 3 + len(items), 'TextTime' if dur == 'tt' else 'MediaTime'))
    elif dur:
        md = ('<mosExternalMetadata><mosSchema>http://x/s</mosSchema><mosPayload><StoryDuration>%d</StoryDuration>'
              '</mosPayload></mosExternalMetadata>' % (10 + len(items)))
    idx = '<storyID/>' if sid in ('', None) else '<storyID>%s</storyID>' % sid
    return '<%s>%s<storySlug>slug %s</storySlug>%s%s%s</%s>' % (tag, idx, sid, body, md, extra, tag)


def ro_xml(stories, meta_layout='before', items=None, mid=1, roid='RO1', dur=True, nodur=(), paras=True, onetime=()):
    """stories: list of ids; items: dict id -> list of item ids; meta_layout: where non-story metadata sits"""
    items = items or {}
    head = '<roID>%s</roID><roSlug>the slug</roSlug><roEdStart>2020-01-01T10:00:00</roEdStart>' % roid
    parts = []
    for k, s in enumerate(stories):
        d_ = dur and s not in nodur
        if s in onetime:
            d_ = 'tt' if (k % 2 == 0) else 'mt'       # timing given by exactly one of TextTime / MediaTime
        parts.append(story_xml(s, items.get(s, ()), dur=d_, paras=paras))
        if meta_layout in ('between', 'all') and k == 0:
            parts.append('<roTrigger>between</roTrigger>')
    tail = '<mosExternalMetadata><mosSchema>http://x/ro</mosSchema><mosPayload><a>1</a></mosPayload></mosExternalMetadata>' \
        if meta_layout in ('after', 'all') else ''
    return ENV % (mid, '<roCreate>%s%s%s</roCreate>' % (head, ''.join(parts), tail))


def _sid(x):
    return '<storyID/>' if x is None else '<storyID>%s</storyID>' % x


def _iid(x):
    return '<itemID/>' if x is None else '<itemID>%s</itemID>' % x


def item_xml(i):
    return '<item><itemID>%s</itemID><itemSlug>new %s</itemSlug></item>' % (i, i)


ABSENT = '__absent__'


def msg(kind, mid=5, roid='RO1', **a):
    """returns (xml, qualified merge function name)"""
    R = '<roID>%s</roID>' % roid
    q = 'mosromgr.mostypes.%s.merge'
    if kind == 'StoryAppend':
        return ENV % (mid, '<roStoryAppend>%s%s</roStoryAppend>' % (R, ''.join(story_xml(s, ['n1']) for s in a['new']))), q % kind
    if kind == 'StoryInsert':
        return ENV % (mid, '<roStoryInsert>%s%s%s</roStoryInsert>' % (R, _sid(a['target']), ''.join(story_xml(s, ['n1']) for s in a['new']))), q % kind
    if kind == 'StoryReplace':
        return ENV % (mid, '<roStoryReplace>%s%s%s</roStoryReplace>' % (R, _sid(a['target']), ''.join(story_xml(s, ['n1']) for s in a['new']))), q % kind
    if kind == 'StoryDelete':
        return ENV % (mid, '<roStoryDelete>%s%s</roStoryDelete>' % (R, ''.join(_sid(s) for s in a['ids']))), q % kind
    if kind == 'StoryMove':
        ids = [a['src']] + ([] if a['target'] == ABSENT else [a['target']])
        return ENV % (mid, '<roStoryMove>%s%s</roStoryMove>' % (R, ''.join(_sid(s) for s in ids))), q % kind
    if kind == 'StorySend':
        body = '<storyBody><p>new text</p><storyItem><itemID>s1</itemID><itemSlug>x</itemSlug></storyItem><p>(note)</p></storyBody>'
        return ENV % (mid, '<roStorySend>%s<storyID>%s</storyID><storySlug>resent</storySlug>%s</roStorySend>' % (R, a['target'] or '', body)), q % kind
    if kind in ('ItemInsert', 'ItemReplace'):
        tag = 'ro' + kind
        return ENV % (mid, '<%s>%s%s%s%s</%s>' % (tag, R, _sid(a['story']), _iid(a['target']), ''.join(item_xml(i) for i in a['new']), tag)), q % kind
    if kind == 'ItemDelete':
        return ENV % (mid, '<roItemDelete>%s%s%s</roItemDelete>' % (R, _sid(a['story']), ''.join(_iid(i) for i in a['ids']))), q % kind
    if kind == 'ItemMoveMultiple':
        return ENV % (mid, '<roItemMoveMultiple>%s%s%s%s</roItemMoveMultiple>' % (R, _sid(a['story']), ''.join(_iid(i) for i in a['ids']), _iid(a['target']))), q % kind
    if kind.startswith('EA'):
        op = {'EAStoryInsert': 'INSERT', 'EAStoryReplace': 'REPLACE', 'EAStoryDelete': 'DELETE', 'EAStoryMove': 'MOVE',
              'EAStorySwap': 'SWAP', 'EAItemInsert': 'INSERT', 'EAItemReplace': 'REPLACE', 'EAItemDelete': 'DELETE',
              'EAItemMove': 'MOVE', 'EAItemSwap': 'SWAP'}[kind]
        if kind in ('EAStoryInsert', 'EAStoryReplace'):
            tgt = '' if a['target'] == ABSENT else '<element_target>%s</element_target>' % _sid(a['target'])
            if a['target'] == ABSENT:
                tgt = '<element_target></element_target>'
            src = ''.join(story_xml(s, ['n1']) for s in a['new'])
        elif kind in ('EAStoryDelete',):
            tgt = ''
            src = ''.join(_sid(s) for s in a['ids'])
        elif kind == 'EAStoryMove':
            tgt = '' if a['target'] == ABSENT else '<element_target>%s</element_target>' % _sid(a['target'])
            src = ''.join(_sid(s) for s in a['ids'])
        elif kind == 'EAStorySwap':
            tgt = '<element_target><storyID/></element_target>'
            src = ''.join(_sid(s) for s in a['ids'])
        elif kind in ('EAItemInsert', 'EAItemReplace'):
            tgt = '<element_target>%s%s</element_target>' % (_sid(a['story']), _iid(a['target']))
            src = ''.join(item_xml(i) for i in a['new'])
        elif kind in ('EAItemDelete', 'EAItemSwap'):
            tgt = '<element_target>%s</element_target>' % _sid(a['story'])
            src = ''.join(_iid(i) for i in a['ids'])
        elif kind == 'EAItemMove':
            tgt = '<element_target>%s%s</element_target>' % (_sid(a['story']), _iid(a['target']))
            src = ''.join(_iid(i) for i in a['ids'])
        if a.get('no_target_elem'):
            tgt = ''
        return ENV % (mid, '<roElementAction operation="%s">%s%s<element_source>%s</element_source></roElementAction>' % (op, R, tgt, src)), q % kind
    if kind == 'ReadyToAir':
        return ENV % (mid, '<roReadyToAir>%s<roAir>READY</roAir></roReadyToAir>' % R), q % kind
    if kind == 'RunningOrderEnd':
        return ENV % (mid, '<roDelete>%s</roDelete>' % R), q % kind
    if kind == 'RunningOrderReplace':
        return ENV % (mid, '<roReplace>%s<roSlug>replaced</roSlug>%s</roReplace>' % (R, ''.join(story_xml(s, (a.get('items') or {}).get(s, ['r1']) if 'items' in a else ['r1']) for s in a['new']))), q % kind
    if kind == 'MetaDataReplace':
        return ENV % (mid, '<roMetadataReplace>%s%s</roMetadataReplace>' % (R, a['body'])), q % kind
    raise ValueError(kind)


def refs(existing, allow_absent=False, blank=True):
    out = list(existing) + ['ZZ']
    if blank:
        out.append(None)
    if allow_absent:
        out.append(ABSENT)
    return out


def merge_cases(tier, rng):
    """single merges, then the same merges as the last step of a history on one RunningOrder object"""
    for case in _single_merge_cases(tier, rng):
        yield case
        S = case['ro']['stories']
        if len(S) == 3 and case['ro']['meta_layout'] == 'before' and case['level'] in ('story', 'item') \
                and not case['ro'].get('nodur') and (tier == 'thorough' or rng.random() < 0.34):
            # history: accessors are read, roReplace swaps the whole running-order element (same story and item IDs), then the merge
            h = dict(case)
            h['prefix'] = [('RunningOrderReplace', dict(new=list(S), items=case['ro'].get('items') or {}))]
            yield h
            if tier == 'thorough':
                h = dict(case)
                h['prefix'] = [('StoryAppend', dict(new=['P9'])), ('MetaDataReplace', dict(body='<roSlug>hist</roSlug>'))]
                yield h


def _single_merge_cases(tier, rng):
    """yield dict(kind, args, ro(spec), level) -- exhaustive over the small scope"""
    big = tier == 'thorough'
    story_sets = [list('ABCD'[:n]) for n in ((1, 3, 4) if not big else (1, 2, 3, 4, 5))]
    story_sets = [list('ABCDE'[:n]) for n in ((1, 3, 4) if not big else (1, 2, 3, 4, 5))]
    layouts = ['before', 'all'] if not big else ['before', 'between', 'after', 'all']
    maxsrc = 2 if not big else 3
    for S in story_sets:
        for lay in layouts:
            ro = dict(stories=S, meta_layout=lay, items={S[0]: ['1', '2', '3'][:1 if len(S) > 3 and not big else 3]})
            # ---- story level
            yield dict(kind='StoryAppend', args=dict(new=['N1', 'N2']), ro=ro, level='story')
            yield dict(kind='StoryAppend', args=dict(new=[S[0]]), ro=ro, level='story')
            for t in refs(S):
                for new in (['N1'], ['N1', S[-1], 'N2'], [S[0], 'N1']):
                    yield dict(kind='StoryInsert', args=dict(target=t, new=new), ro=ro, level='story')
                for new in (['N1'], ['N1', 'N2'], []):
                    yield dict(kind='StoryReplace', args=dict(target=t, new=new), ro=ro, level='story')
                    if new:
                        yield dict(kind='EAStoryReplace', args=dict(target=t, new=new), ro=ro, level='story')
                yield dict(kind='StorySend', args=dict(target=t), ro=ro, level='story')
            for t in refs(S, allow_absent=True):
                for new in (['N1'], ['N1', S[-1], 'N2']):
                    yield dict(kind='EAStoryInsert', args=dict(target=t, new=new), ro=ro, level='story')
                for s in refs(S):
                    yield dict(kind='StoryMove', args=dict(src=s, target=t), ro=ro, level='story')
                for k in range(1, maxsrc + 1):
                    for ids in itertools.permutations(refs(S), k):
                        if len(S) > 3 and k > 1 and not big and rng.random() < 0.6:
                            continue
                        yield dict(kind='EAStoryMove', args=dict(target=t, ids=list(ids)), ro=ro, level='story')
            for k in range(1, maxsrc + 1):
                for ids in itertools.product(refs(S), repeat=k):
                    if len(S) > 3 and k > 1 and not big and rng.random() < 0.6:
                        continue
                    yield dict(kind='StoryDelete', args=dict(ids=list(ids)), ro=ro, level='story')
                    yield dict(kind='EAStoryDelete', args=dict(ids=list(ids)), ro=ro, level='story')
            for a, b in itertools.product(refs(S), repeat=2):
                yield dict(kind='EAStorySwap', args=dict(ids=[a, b]), ro=ro, level='story')
        # ---- item level (items live in the first and, with the same IDs, in the last story)
        for nitems in ((1, 3, 4) if not big else (1, 2, 3, 4, 5)):
            I = list('12345'[:nitems])
            its = {S[0]: I}
            if len(S) > 1:
                its[S[-1]] = I      # same item IDs in another story (C03: never touched)
            ro = dict(stories=S, meta_layout='before', items=its)
            variants = [(ro, st, ()) for st in ([S[0], 'ZZ', None] if len(S) == 3 else [S[0]])]
            if len(S) == 3 and nitems == 3:
                # adjacent items (no paragraphs between them); the last story addressed while an earlier one holds the same IDs;
                # IDs ('8', '9') that exist only in stories other than the addressed one
                variants.append((dict(ro, paras=False), S[0], ()))
                its2 = {S[0]: I[1:2] + ['9'], S[1]: ['8'], S[-1]: I}      # '1' and '3' only in the addressed story, '2' also earlier
                variants.append((dict(stories=S, meta_layout='before', items=its2), S[-1], ('8', '9')))
                variants.append((dict(stories=S, meta_layout='before', items=its2, paras=False), S[-1], ('8',)))
            for ro, st, elsewhere in variants:
                def refs_i(I, _e=elsewhere):
                    return refs(I) + list(_e)
                for t in refs_i(I):
                    for new in (['n1'], ['n1', 'n2']):
                        yield dict(kind='ItemInsert', args=dict(story=st, target=t, new=new), ro=ro, level='item')
                        yield dict(kind='EAItemInsert', args=dict(story=st, target=t, new=new), ro=ro, level='item')
                        yield dict(kind='ItemReplace', args=dict(story=st, target=t, new=new), ro=ro, level='item')
                        yield dict(kind='EAItemReplace', args=dict(story=st, target=t, new=new), ro=ro, level='item')
                    for k in range(1, maxsrc + 1):
                        for ids in itertools.permutations(refs_i(I), k):
                            if nitems > 3 and k > 1 and not big and rng.random() < 0.6:
                                continue
                            yield dict(kind='ItemMoveMultiple', args=dict(story=st, target=t, ids=list(ids)), ro=ro, level='item')
                            yield dict(kind='EAItemMove', args=dict(story=st, target=t, ids=list(ids)), ro=ro, level='item')
                for k in range(1, maxsrc + 1):
                    for ids in itertools.product(refs_i(I), repeat=k):
                        if nitems > 3 and k > 1 and not big and rng.random() < 0.6:
                            continue
                        yield dict(kind='ItemDelete', args=dict(story=st, ids=list(ids)), ro=ro, level='item')
                        yield dict(kind='EAItemDelete', args=dict(story=st, ids=list(ids)), ro=ro, level='item')
                for a, b in itertools.product(refs_i(I), repeat=2):
                    yield dict(kind='EAItemSwap', args=dict(story=st, ids=[a, b]), ro=ro, level='item')
        # roElementAction without any element_target tag; running orders holding a story without timing metadata
        ro = dict(stories=S, meta_layout='before', items={S[0]: ['1', '2']})
        for kind, args in (('EAStoryInsert', dict(target=None, new=['N1'])), ('EAStoryDelete', dict(ids=[S[0]])),
                           ('EAStorySwap', dict(ids=[S[0], S[-1]])), ('EAStoryMove', dict(target=ABSENT, ids=[S[0]])),
                           ('EAItemSwap', dict(story=S[0], ids=['1', '2'])), ('EAItemDelete', dict(story=S[0], ids=['1']))):
            a2 = dict(args)
            a2['no_target_elem'] = True
            if kind in ('EAItemSwap', 'EAItemDelete'):
                a2['story'] = None      # without element_target there is no story reference
            yield dict(kind=kind, args=a2, ro=ro, level='item' if 'Item' in kind else 'story')
        # references that differ from an existing ID only by surrounding white space name nothing (IDs are compared exactly)
        ro = dict(stories=S, meta_layout='before', items={S[0]: ['1', '2']})
        for kind, args in (('EAItemSwap', dict(story=S[0], ids=['2', '2 '])), ('EAItemSwap', dict(story=S[0], ids=[' 1', '1'])),
                           ('EAStorySwap', dict(ids=[S[0], S[0] + ' '])), ('ItemDelete', dict(story=S[0], ids=['1 '])),
                           ('EAItemMove', dict(story=S[0], target='1', ids=['2 '])), ('StoryDelete', dict(ids=[' ' + S[0]]))):
            yield dict(kind=kind, args=args, ro=ro, level='item' if 'Item' in kind else 'story')
        for nd in ([S[0]], [S[len(S) // 2]], list(S), 'onetime'):
            ro = dict(stories=S, meta_layout='before', items={S[0]: ['1']}, nodur=nd)
            if nd == 'onetime':
                ro = dict(stories=S, meta_layout='before', items={S[0]: ['1']}, onetime=list(S))
            yield dict(kind='StoryInsert', args=dict(target=S[-1], new=['N1']), ro=ro, level='story')
            yield dict(kind='EAStoryInsert', args=dict(target=None, new=['N1']), ro=ro, level='story')
            yield dict(kind='StorySend', args=dict(target=S[0]), ro=ro, level='story')
            yield dict(kind='StoryAppend', args=dict(new=['N1']), ro=ro, level='story')
        # a running order holding a story (an item) whose own ID is blank: blank references must not resolve to it
        if len(S) == 3:
            Sb = [S[0], '', S[1], S[2]]
            ro = dict(stories=Sb, meta_layout='before', items={S[0]: ['1', '', '2']})
            for t in (None, S[0], 'ZZ'):
                yield dict(kind='StoryDelete', args=dict(ids=[t]), ro=ro, level='story')
                yield dict(kind='StoryDelete', args=dict(ids=[t, S[2]]), ro=ro, level='story')
                yield dict(kind='EAStoryDelete', args=dict(ids=[t]), ro=ro, level='story')
                yield dict(kind='StoryReplace', args=dict(target=t, new=['N1']), ro=ro, level='story')
                yield dict(kind='EAStoryReplace', args=dict(target=t, new=['N1']), ro=ro, level='story')
                yield dict(kind='StoryInsert', args=dict(target=t, new=['N1']), ro=ro, level='story')
                yield dict(kind='EAStoryInsert', args=dict(target=t, new=['N1']), ro=ro, level='story')
                yield dict(kind='StorySend', args=dict(target=t), ro=ro, level='story')
                yield dict(kind='StoryMove', args=dict(src=t, target=S[2]), ro=ro, level='story')
                yield dict(kind='StoryMove', args=dict(src=S[2], target=t), ro=ro, level='story')
                yield dict(kind='EAStoryMove', args=dict(target=t, ids=[S[2]]), ro=ro, level='story')
                yield dict(kind='EAStoryMove', args=dict(target=S[0], ids=[t]), ro=ro, level='story')
                yield dict(kind='EAStorySwap', args=dict(ids=[t, S[2]]), ro=ro, level='story')
                yield dict(kind='ItemDelete', args=dict(story=S[0], ids=[t if t != S[0] else '1']), ro=ro, level='item')
                yield dict(kind='EAItemDelete', args=dict(story=S[0], ids=[t if t != S[0] else '1']), ro=ro, level='item')
                yield dict(kind='ItemReplace', args=dict(story=S[0], target=t if t != S[0] else '1', new=['n1']), ro=ro, level='item')
                yield dict(kind='ItemInsert', args=dict(story=S[0], target=t if t != S[0] else '1', new=['n1']), ro=ro, level='item')
                yield dict(kind='ItemMoveMultiple', args=dict(story=S[0], target=t if t != S[0] else '1', ids=['2']), ro=ro, level='item')
                yield dict(kind='EAItemMove', args=dict(story=S[0], target='1', ids=[t if t != S[0] else '2']), ro=ro, level='item')
                yield dict(kind='EAItemSwap', args=dict(story=S[0], ids=['1', t if t != S[0] else '2']), ro=ro, level='item')
                yield dict(kind='ItemInsert', args=dict(story=t, target='1', new=['n1']), ro=ro, level='item')
        ro = dict(stories=S, meta_layout='all', items={S[0]: ['1', '2']})
        yield dict(kind='ReadyToAir', args={}, ro=ro, level='ro')
        yield dict(kind='RunningOrderEnd', args={}, ro=ro, level='ro')
        yield dict(kind='RunningOrderReplace', args=dict(new=['X1', 'X2']), ro=ro, level='ro')
        for body in ('<mosExternalMetadata><mosPayload><c>no schema</c></mosPayload></mosExternalMetadata>',
                     '<mosExternalMetadata><mosSchema/><mosPayload><c>blank schema</c></mosPayload></mosExternalMetadata>',
                     '<mosExternalMetadata><mosPayload><c>1</c></mosPayload></mosExternalMetadata><mosExternalMetadata><mosPayload><c>2</c></mosPayload></mosExternalMetadata>',
                     '<roEdStart>2021-02-03T04:05:06</roEdStart><roTrigger>t2</roTrigger>',
                     '<roSlug>new slug</roSlug>', '<roSlug>s2</roSlug><roChannel>ch</roChannel>',
                     # carried elements with attributes / children replacing a text-only element, and the other way round
                     '<roSlug kind="working" lang="en">attr slug</roSlug>', '<roTrigger><when>now</when><by>op</by></roTrigger>',
                     '<roTrigger mode="auto"/>', '<roEdStart/>',
                     '<mosExternalMetadata><mosSchema>http://x/ro</mosSchema><mosPayload><a>2</a></mosPayload></mosExternalMetadata>',
                     '<mosExternalMetadata><mosSchema>http://other</mosSchema><mosPayload><b>9</b></mosPayload></mosExternalMetadata>'):
            yield dict(kind='MetaDataReplace', args=dict(body=body), ro=ro, level='meta')


def describe(case):
    return '%s %s on stories=%s layout=%s items=%s%s' % (case['kind'], case['args'], case['ro']['stories'],
                                                       case['ro']['meta_layout'], case['ro'].get('items'),
                                                       ' after %s' % case['prefix'] if case.get('prefix') else '')
