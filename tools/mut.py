#!/usr/bin/env python3
"""tools/mut.py <mutant.py> <function>... : verify functions against a mutated scratch copy of /repo/mosromgr.
mutant.py defines FILE (relative to mosromgr/) and mutate(s) -> s."""
import sys, os, shutil, subprocess, tempfile, runpy
m = runpy.run_path(sys.argv[1])
d = tempfile.mkdtemp(prefix='mut.', dir='/var/tmp')
try:
    shutil.copytree(os.path.join(os.environ.get('MUT_BASE', '/repo'), 'mosromgr'), os.path.join(d, 'mosromgr'))
    p = os.path.join(d, 'mosromgr', m['FILE'])
    s = open(p).read()
    s2 = m['mutate'](s)
    assert s2 != s, 'mutation did not apply'
    open(p, 'w').write(s2)
    env = dict(os.environ, MOSROMGR_SRC=d)
    out = subprocess.run(['python3-vt', '-m', 'pyvc.run1'] + sys.argv[2:], cwd='/verif', env=env, capture_output=True, text=True)
    import re
    for line in (out.stdout + out.stderr).splitlines():
        mm = re.search(r' (\d+)/(\d+) ', line)
        if mm and mm.group(1) == mm.group(2):
            continue
        print(line[:230])
finally:
    shutil.rmtree(d)
