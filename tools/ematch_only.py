import sys, os, time; sys.path.insert(0, os.path.dirname(os.path.dirname(os.path.abspath(__file__))))
import z3
from pyvc.main import load_contracts
from pyvc.extract import Repo
from pyvc import verify
from pyvc.solve import build_solver
import pyvc.solve as S
load_contracts()
fn=sys.argv[1]
bad=[]
def fake(ob, ax, timeout_ms=20000, want_model=False, retry=True, cover=False):
    if ob.result=='trivial' or ob.expect!='unsat': 
        ob.result = ob.result or 'skip'; return ob
    s=build_solver(ob, ax, timeout_ms); s.add(z3.Not(ob.goal))
    t=time.time(); r=s.check(); ob.result=str(r); ob.time=time.time()-t
    if r!=z3.unsat: bad.append((ob.kind, ob.name, ob.path, str(r), '%.2f'%ob.time))
    return ob
verify.discharge=fake
r=verify.verify_function(Repo(), fn, timeout_ms=20000)
print(fn, 'obligations', len(r.obligations), 'needing retries (first e-matching attempt fails):', len(bad))
for b in bad: print('   ', b[0], b[1], b[3], b[4], b[2][:80])
