#!/usr/bin/env python3
"""list the slowest obligations of a property run (to spot proofs that may flip under load)"""
import sys, os, json
sys.path.insert(0, os.path.dirname(os.path.dirname(os.path.abspath(__file__))))
os.environ.setdefault('PYTHONHASHSEED', '0')
from pyvc.main import load_contracts, worker, functions_for
import multiprocessing as mp
REG = load_contracts()
prop = sys.argv[1]
fns = functions_for(prop, REG)
with mp.get_context('fork').Pool(8, maxtasksperchild=1) as pool:
    res = pool.map(worker, [(q, prop, 20000, False) for q in fns], chunksize=1)
rows = []
for r in res:
    for ob in r['obligations']:
        if ob['expect'] == 'unsat':
            rows.append((ob['time'], ob['result'], r['fn'].split('.')[-2] + '.' + r['fn'].split('.')[-1], ob['kind'], ob['name']))
rows.sort(reverse=True)
for row in rows[:25]:
    print('%.2fs %-8s %-32s %s.%s' % row)
