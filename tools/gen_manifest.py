#!/usr/bin/env python3
"""regenerate MANIFEST.json from the table below (keeps it valid at all times)"""
import json, os
V = os.path.dirname(os.path.dirname(os.path.abspath(__file__)))
ids = [json.loads(l)['id'] for l in open(os.path.join(V, 'properties.jsonl'))]
TECH = 'contract-based deductive verification: VCs generated from the ast of the current /repo source by pyvc, sidecar contracts + loop invariants, discharged by z3 (thorough: + cvc5, z3 4.8); bounded real-code oracle only as counterexample source / cross-check'
NOTE = ('trusted base: the pyvc VC generator (unverified, mutant self-tested), z3, the assumed library contracts A-* listed in the evidence '
        '(ElementTree list/find semantics, deepcopy, warnings), python semantics of DESIGN 3.2; proofs are modular: callee contracts are '
        'proved in the same run unless listed as callee_contracts_assumed_not_proved')
CLAIMED = {
 'C01': ('proof', 'all 11 story-level merges + find_child: every C01 clause (placement, membership, order of the others) is a postcondition / loop invariant discharged for all running orders, list lengths and positions; a bounded real-code oracle replays counterexamples', '5/C01'),
 'C02': ('proof', 'all 9 item-level merges: C02 clauses on the child list of the addressed story discharged for all lengths/positions', '5/C02'),
 'C03': ('proof', 'all 24 merges: frame clauses (only the addressed child list is written), order/content of everything unnamed, inertness of blank/unknown references', '5/C03'),
 'C05': ('proof', 'every exceptional exit of every merge carries the obligation that no heap location was written before the raise', '5/C05'),
 'C06': ('proof', 'per-iteration warning obligations (exactly one warning of the documented category iff the element is unresolvable / duplicate) and no-warning-when-applied clauses on all merges', '5/C06'),
 'C13': ('proof', 'ownership invariant (no element shared between message and running order), message child lists and tags never written, on all merges', '5/C13'),
 'C07': ('proof', 'RunningOrder.__add__ (completed guard for every message type through the abstract merge contract), RunningOrderEnd.merge (record added to the root, content untouched), no-spurious-completion clause on every merge, classification of a completed running order', '5/C07'),
 'C08': ('proof', 'MosFile._classify (table loop fully unrolled: complete), ElementAction._classify, from_string/from_file: class decided by the message element alone for both warning configurations (symbolic WERR), UnknownMosFileType / MosInvalidXML exactly when specified; file/str/bytes equality rests on the assumed parse contract', '5/C08'),
 'C09': ('proof', 'MosCollection.merge loop invariant + per-iteration ghost call log: exactly one add of the freshly restored message k per iteration, strict/non-strict warning and propagation clauses; __add__ against the abstract merge contract; MosReader.mos_object restores a fresh object and keeps no reference to it', '5/C09'),
 'C11': ('proof', 'MosCollection.__init__/_validate: accepted iff one roCreate, <=1 roDelete (exactly 1 unless allow_incomplete), equal roIDs, non-empty -- for symbolic list length and symbolic python -O flag; filtered comprehensions as monotone embeddings', '5/C11'),
 'C12': ('proof', 'safety obligations at every operation that can raise a built-in exception on every path of all merges, classification and constructors: only MosRoMgrException subclasses escape', '5/C12'),
 'C10': ('proof', 'MosReader.__lt__ / MosFile.__lt__ compare numeric message ids; from_strings / from_files hand the constructor a permutation of all inputs without adjacent inversion (sorted is an assumed contract evaluated with the real __lt__); uniqueness of the ascending arrangement is a Lean/Mathlib lemma', '5/C10'),
 'C20': ('proof', '42 accessors of the 20 message classes with targets/sources + MosElement.id + 24 inspect() methods: exposed ids are exactly the texts of the named ID tags in message order, blank target -> None, inspect never raises and mentions every source', '5/C20'),
 'C15': ('proof', 'every documented read accessor of RunningOrder / Story / Item under RO_Inv: safety obligations (no exception on any path) + ensures equal to a direct read of the XML; RO_Inv (incl. numeric durations / parseable times where present) is preserved by every merge, which covers every reachable state', '5/C15'),
 'C16': ('proof', '_get_story_duration (precedence), _get_story_offsets (loop invariant: running total = prefix sum, dict keyed by story element), Story.offset/start_time/end_time, RunningOrder.start_time/end_time/duration against recursive spec functions; floats treated as reals', '5/C16'),
 'C17': ('proof', 'Story.script/body as filtered comprehensions checked pointwise (filter and map agree with the spec on every element), _is_technical_note, RunningOrder.script/body as the in-order concatenation of the per-story lists; string primitives uninterpreted but shared by code and spec', '5/C17'),
 'C04': ('proof', 'carried stories/items arrive as deep copies (A-COPY isomorphism) at their place in every carrying merge; StorySend._convert_story_send_to_story_tag proved with two loop invariants (storyBody children spliced in place, only direct storyItems renamed); roReplace and roMetadataReplace content clauses', '5/C04'),
 'C14': ('proof', 'envelope clauses on every merge (exactly one roCreate, messageID and roID unchanged, at most one completion record, RO_Inv preserved) are discharged; the read-back step itself is the assumed library contract A-ET-RT, conformance-tested on seeded random trees and on reachable states in the bounded real-code check', '5/C14'),
 'C18': ('proof', 'from_file / from_string / from_s3 share one body up to the parse call (assumed contract A-ET-PARSE / A-S3: content -> tree); MosReader.from_* store message id, roID, class and the constructor of that class with the same arguments; mos_object restores through it (26 class variants); get_mos_files proved with nested loop invariants and ghost counters (every key with the suffix, all pages, in order)', '5/C18'),
 'C19': ('proof', 'CLI.__call__ (any exception -> stderr message, status 2), detect_or_inspect (per-file loop: one Invalid line or the detect line with the class the library assigns, inspect outline, the scan always continues), do_merge (collection built with the given flags, output is the serialisation of the merged running order, to stdout or -o), the 25 inspect() bodies never raise on a schema-shaped message; the argparse option wiring is enumerated exhaustively by the bounded real-code check, not proved', '5/C19'),
}
REASON_TODO = 'check not built yet (build in progress); not a statement about reachability of the technique'
m = {
 'version': 1,
 'setup_cmd': 'python3-vt -m compileall -q pyvc contracts replay >/dev/null; tools/check_lemmas.sh',
 'hooks': {'guard': 'BBC_MOSROMGR_VERIF', 'enable': 'none needed: contracts are sidecar files in /verif and the replay oracle uses the public API; /repo is not instrumented',
           'baseline_off_cmd': 'cd /repo && /venv/bin/python -m pytest -q -p no:cacheprovider', 'source_commits': [], 'add_only': True},
 'engines': [{'name': 'pyvc', 'path': 'pyvc/', 'serves_properties': sorted(CLAIMED), 'kind_free_text': 'ast -> SMT verification-condition generator with sidecar contracts (z3/cvc5)'},
             {'name': 'real-code oracle', 'path': 'replay/', 'serves_properties': sorted(CLAIMED), 'kind_free_text': 'bounded small-scope search on the real public API; counterexample source and CPython cross-check, never counted as proof'}],
 'checks': [], 'notes': 'see DESIGN.md; fixes to /repo are separate "fix:" commits listed in known-findings.json',
 'not_applicable': [],
}
for i in ids:
    if i in CLAIMED:
        lvl, txt, ref = CLAIMED[i]
        m['checks'].append({'property_id': i, 'quick_cmd': './check %s --quick' % i, 'thorough_cmd': './check %s --thorough' % i,
                            'evidence_file': 'evidence/%s.json' % i, 'replay_cmd_template': './check %s --replay {path}' % i,
                            'engine': 'pyvc', 'level_claimed': {'category': lvl, 'text': txt, 'design_ref': ref},
                            'level_note': NOTE, 'technique': TECH})
    else:
        m['not_applicable'].append({'property_id': i, 'reason': REASON_TODO})
json.dump(m, open(os.path.join(V, 'MANIFEST.json'), 'w'), indent=1)
print('claimed', sorted(CLAIMED))
