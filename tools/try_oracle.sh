#!/bin/bash
# tools/try_oracle.sh <seeded id | clean> <property> : run only the bounded real-code oracle on a scratch copy of /repo HEAD (+ the seeded patch)
cd "$(dirname "$0")/.."
m=$1; p=$2; wk=$(mktemp -d /var/tmp/wk_o.XXXX)
git -C /repo archive HEAD | tar -x -C $wk
[ "$m" = clean ] || (cd $wk && patch -p1 -s < /verif/seeded/$m/patch.diff)
PYTHONPATH=$wk /venv/bin/python replay/run_real.py search $p ${3:-quick} 0 2>&1 | python3 -c "
import json,sys
s=sys.stdin.read()
try:
    r=json.loads(s); print('$m $p', r['summary']['short'])
    for f in r['failures'][:4]: print('   ', f['what'][:220])
except Exception as e: print('ERR', s[-1500:])"
rm -rf $wk
