#!/bin/bash
# compile the Lean lemma(s) used by C10 and stamp the result (offline; Mathlib is pre-installed)
cd "$(dirname "$0")/../lemmas" || exit 1
for f in *.lean; do
  sha=$(sha256sum "$f" | cut -d' ' -f1)
  out=$(lean "$f" 2>&1)
  if echo "$out" | grep -q "error"; then echo "LEMMA FAILED: $f"; echo "$out"; rm -f "${f%.lean}.ok"; exit 1; fi
  echo "$sha" > "${f%.lean}.ok"
  echo "$out" > "${f%.lean}.out"
done
echo "lemmas ok"
