#!/usr/bin/env python3
"""seeded/*/meta.json from the author's notes.md and the check_result.json written by tools/try_seeded_par.py / try_seeded.py"""
import json, glob, os, re
V = os.path.dirname(os.path.dirname(os.path.abspath(__file__)))
for d in sorted(glob.glob(os.path.join(V, 'seeded', '*_*'))):
    name = os.path.basename(d)
    notes = open(os.path.join(d, 'notes.md')).read() if os.path.exists(os.path.join(d, 'notes.md')) else ''
    props = []
    for p in re.findall(r'C[0-9][0-9]', notes):
        if p not in props:
            props.append(p)
    rnd = 1 if name[0] == 'C' else int(name[1])
    main = name.split('_')[0] if rnd == 1 else props[0]
    m = re.search(r'(?is)needs?\s+to\s+manifest[^\n]*\n?(.{0,600})', notes)
    need = ' '.join((m.group(0) if m else '').split())[:420]
    crp = os.path.join(d, 'check_result.json')
    if not os.path.exists(crp):
        print(name, 'no check_result.json')
        continue
    cr = json.load(open(crp))
    checks = cr.get('checks', {})
    c = checks.get(main, {})
    lines = c.get('lines', [])
    viol = [l for l in lines if l.startswith('VIOLATION')]
    tl = any(l.startswith('TOOL-LIMIT') for l in lines)
    mm = re.search(r'(\d+)/(\d+) obligations', c.get('summary', ''))
    failed_obl = (int(mm.group(2)) - int(mm.group(1))) if mm else None
    if c.get('exit') != 1:
        how = 'MISSED'
    elif any('no-failing-input-found' not in l for l in viol):
        how = 'failing input replayed on the real code'
    else:
        how = 'failed obligation (no failing input found)'
    meta = {
        'id': name, 'round': rnd, 'breaks_property': main, 'also_named_by_the_author': [p for p in props if p != main],
        'source': 'independent sub-agent given only the property texts and a scratch worktree',
        'needs_to_manifest': need,
        'confirmed': {'existing_tests_with_change': cr.get('tests'), 'demo_exit_unchanged': cr.get('demo_clean'),
                      'demo_exit_with_change': cr.get('demo_patched'),
                      'how': 'tools/try_seeded_par.py: scratch copy of /repo HEAD + patch.diff (MOSROMGR_SRC); pytest there; demo.py without and '
                             'with the change; ./check <property> --quick for the property broken (and its neighbours)'},
        'check_result': {'exit': c.get('exit'), 'lines': lines, 'summary': c.get('summary'), 'caught_by': how,
                         'failed_obligations': failed_obl, 'function_fell_back_to_bounded_check': tl},
        'other_checks_run': {p: {'exit': v.get('exit'), 'caught': v.get('exit') == 1} for p, v in checks.items() if p != main},
    }
    json.dump(meta, open(os.path.join(d, 'meta.json'), 'w'), indent=1)
    print(name, main, how, 'failed obligations:', failed_obl, 'tool-limit' if tl else '')
