#!/bin/bash
# every seeded change under seeded/ against the check of the property it breaks (scratch copies of /repo HEAD, 3 at a time), then meta.json
cd "$(dirname "$0")/.."
args=""
for d in seeded/*_*; do
  n=$(basename $d)
  if [[ $n == C* ]]; then p=${n%_*}; else p=$(grep -o 'C[0-9][0-9]' $d/notes.md | head -1); fi
  args="$args $d:$p"
done
python3 tools/try_seeded_par.py -j ${1:-3} $args
python3 tools/mk_meta.py
