#!/bin/bash
# run every candidate seeded change under /tmp/seed*/_out against its own property's check (sequential: uses /repo)
cd "$(dirname "$0")/.."
for d in /tmp/seed*/_out/C*_*; do
  p=$(basename $d); p=${p%_*}
  echo "=== $d"
  python3 tools/try_seeded.py $d $p 2>&1 | tail -2
done
