#!/usr/bin/env python3
"""regenerate DESIGN.md section 10 from seeded/*/meta.json"""
import json, glob, os, re
V = os.path.dirname(os.path.dirname(os.path.abspath(__file__)))
rows = []
for mp in sorted(glob.glob(os.path.join(V, 'seeded', '*', 'meta.json'))):
    m = json.load(open(mp))
    patch = open(os.path.join(os.path.dirname(mp), 'patch.diff')).read()
    files = sorted(set(re.findall(r'^\+\+\+ b/(\S+)', patch, re.M)))
    funcs = sorted(set(re.findall(r'^@@.*@@\s+(?:def|class)\s+(\w+)', patch, re.M)))
    need = ' '.join(m.get('needs_to_manifest', '').split())[:170]
    cr = m['check_result']
    how = cr['caught_by'] + (' (function outside the engine subset: bounded oracle stood in)' if cr.get('function_fell_back_to_bounded_check') else '')
    rows.append('| `%s` | %s | %s | %s | %s |' % (m['id'], m['breaks_property'], ', '.join(files).replace('mosromgr/', ''), need.replace('|', '/'), how))
txt = '''## 10. Seeded changes and which checks catch them

40 property-breaking changes were written by ten independent sub-agents, each given only the text of two properties
and its own scratch worktree (nothing from /verif).  Each was confirmed here by `tools/try_seeded.py`: the patch
applies to `/repo`, the unedited test suite still passes (196), the demonstration exits 0 without and non-zero with
the change, the check of the broken property is run, and `/repo` is restored.  They are kept under
`seeded/<id>/` (patch.diff, demo.py, notes.md, meta.json).  **All 40 are caught** by the quick check of the property
they break.  First round: 31 caught; the 9 misses and what was strengthened:

* `C12_2` exposed an *unsound* loop proof: `d[k] = v` was not counted as a modification of `d`, so the dict of
  `_get_story_offsets` was not havocked and every iteration but the first was vacuous.  Fixed in the engine
  (subscript stores and `.append` modify their receiver) and guarded by a new strong cover per loop
  ("the arbitrary iteration is not only the first one", checked with MBQI as well).
* `C03_1`, `C04_2` (`findtext`-based schema match), `C17_1` (`startswith(tuple)`), `C01_1` (`sorted((a, b))`),
  `C09_1` (`issubclass`): constructs outside the engine subset made the function a tool limit and the bounded oracle
  had no scenario for them; the constructs were added to the engine and scenarios to the oracle (metadata blocks
  without / with blank mosSchema, mixed brackets, roReplace inside collections, ...).
* `C13_1` (converted story cached on the message object and inserted by reference): per-call contracts cannot see a
  second merge; added the clause `C13.message_object_holds_no_reference_into_the_running_order` to every merge and a
  re-use history scenario to the oracle; merge entry objects are now built by the real `MosFile.__init__`.
* `C10_2`, `C19_2` (S3 branches): `MosCollection.from_s3` and the S3 variants of `CLI.do_merge` were not under
  contract; added, plus fake-bucket scenarios in the oracle.
* `C08_1`: all four functions became tool limits and the check stopped with "zero obligations" (exit 3); a run in
  which every function is a tool limit is now decided by the bounded oracle (level `exploration`).

| id | breaks | file | needs to manifest | caught by |
|---|---|---|---|---|
%s

Semantics-preserving refactors used as false-alarm tests (`tools/try_refactor.py`, files under
`/var/tmp/refactors` at build time, reproduced in `selftest/refactors/`): renaming locals of `StoryInsert.merge` and
`EAStoryMove.merge`, `replace_node` instead of remove+insert in `StorySend.merge`, a conditional expression for the
index adjustment of `StoryMove.merge`, inverted nesting in `find_child`, swapped branches with `continue` in
`StoryDelete.merge`, a counted instead of listed roDelete check in `_validate`, separate `if`s in
`_get_story_duration`: all 8 leave every check at exit 0, and all are still *proved* (no tool limit) after contract
binding was made name-free (`contracts/roles.py`).
''' % '\n'.join(rows)
p = os.path.join(V, 'DESIGN.md')
s = open(p).read()
a = s.index('## 10. Seeded changes and which checks catch them')
b = s.index('## 11. False alarms met while building')
s = s[:a] + txt + '\n' + s[b:]
open(p, 'w').write(s)
print(len(rows), 'rows')
