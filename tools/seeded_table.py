#!/usr/bin/env python3
"""regenerate DESIGN.md section 10 from seeded/*/meta.json"""
import json, glob, os, re
V = os.path.dirname(os.path.dirname(os.path.abspath(__file__)))
rows = []
for mp in sorted(glob.glob(os.path.join(V, 'seeded', '*', 'meta.json'))):
    m = json.load(open(mp))
    patch = open(os.path.join(os.path.dirname(mp), 'patch.diff')).read()
    files = sorted(set(re.findall(r'^\+\+\+ b/(\S+)', patch, re.M)))
    funcs = sorted(set(re.findall(r'^@@.*@@\s+(?:def|class)\s+(\w+)', patch, re.M)))
    need = ' '.join(m.get('needs_to_manifest', '').split())[:170]
    cr = m['check_result']
    how = cr['caught_by']
    fo = cr.get('failed_obligations')
    if cr.get('function_fell_back_to_bounded_check'):
        ded = 'tool limit: changed function left the engine subset, bounded check decided'
    elif fo:
        ded = '%d obligation(s) fail' % fo
    else:
        ded = 'all obligations discharged (bounded check alone)'
    rows.append('| `%s` | %s | %s | %s | %s | %s |' % (m['id'], m['breaks_property'], ', '.join(files).replace('mosromgr/', ''), need.replace('|', '/'), how, ded))
nrow = {r: sum(1 for x in rows if x.startswith('| `' + ('C' if r == 1 else 'R%d' % r))) for r in (1, 2, 3, 4, 5)}
txt = '''## 10. Seeded changes and which checks catch them

%d property-breaking changes were written by independent sub-agents in five rounds (%d + %d + %d + %d + %d), each agent given
only the text of a few properties and its own scratch worktree (nothing from /verif).  Round 1 asked for realistic
single-site slips, round 2 for subtle / cooperating changes (two sites that each look fine, state reached by an
earlier merge, particular relative positions), round 3 for plain-logic slips in simple code (wrong variable, `<`
vs `<=`, a check moved after the first mutation, a dropped clause), round 4 for slips in the less obvious places
(helpers of `utils/xml.py`, `MosElement`, the `MosFile` base class, readers, collection, S3, CLI, `inspect()`), round 5
for two cooperating sites, faults that need a multi-step history (an object re-used across merges or collections)
and faults on error paths (state left behind, which exception type escapes).  Each
change is confirmed by
`tools/try_seeded_par.py` (round 1 first with `tools/try_seeded.py` on `/repo` itself): the patch applies to a
scratch copy of `/repo`'s HEAD, the unedited test suite still passes there (196), the author's demonstration exits
0 without and non-zero with the change, and the quick check of the broken property is run against the copy
(`MOSROMGR_SRC`).  They are kept under `seeded/<id>/` (patch.diff, demo.py, notes.md, check_result.json,
meta.json); `tools/try_all_seeded.sh` re-runs all of them.  **All %d are caught by the quick check of the property
they break: %d with a failing input replayed on the real code, %d (round 5: `R5A_2` under C04 - its failing history is found by the C13 check) by failed
obligations alone (`VIOLATION ... no-failing-input-found`, the replay file names the obligations and carries the
solver output; the stand-in has no history / input for them yet).**  The last column says what the deductive part
did on its own: obligations that fail on the changed source, or *tool limit* when the change moved the function
out of the engine's subset (new loop without invariant, `Element.iter`, `dict.fromkeys`, ...) so that the
bounded real-code check had to decide.

What the misses of each round exposed, and what was strengthened:

* Round 1 (31 of 40 caught at first).  `C12_2` exposed an *unsound* loop proof: `d[k] = v` was not counted as a
  modification of `d`, so the dict of `_get_story_offsets` was not havocked and every iteration but the first was
  vacuous.  Fixed in the engine (subscript stores and `.append` modify their receiver) and guarded by a new strong
  cover per loop ("the arbitrary iteration is not only the first one", checked with MBQI as well).
  `C03_1`, `C04_2` (`findtext`-based schema match), `C17_1` (`startswith(tuple)`), `C01_1` (`sorted((a, b))`),
  `C09_1` (`issubclass`): constructs outside the engine subset made the function a tool limit and the bounded
  check had no scenario for them; constructs added to the engine, scenarios to the bounded check.
  `C13_1` (converted story cached on the message object and inserted by reference): per-call contracts cannot see
  a second merge; added the clause `C13.message_object_holds_no_reference_into_the_running_order` to every merge
  and re-use histories to the bounded check; merge entry objects are now built by the real `MosFile.__init__`.
  `C10_2`, `C19_2` (S3 branches): `MosCollection.from_s3` and the S3 variants of `CLI.do_merge` were not under
  contract; added.  `C08_1`: every function a tool limit gave "zero obligations" (exit 3); such a run is now
  decided by the bounded check (level `exploration`).
* Round 2 (16 of 26 caught at first).  All ten misses were tool limits whose stand-in lacked the scenario, plus
  one structural gap.  `R2A_1` / `R2D_3` (`base_tag` memoised on the object, stale after roReplace): the merge
  proofs start from a freshly constructed running-order object, so state kept on the object between merges was
  invisible; added the clause `running_order_object_holds_no_detached_element[field]` to every merge (fails in
  `RunningOrderReplace.merge`) and same-object histories (accessors read, roReplace applied, then the merge /
  accessor under test) to the bounded check.  `R2C_4` (`isinstance`-first ordering): `isinstance` on an object
  known only by its base class is now an uninterpreted fact per (object, class) and the C10 obligation fails
  deductively.  `R2E_4`/`R2E_5` (`key.lower()`, `bytes.decode`): string methods without a model are now
  uninterpreted functions, so the listing / download obligations fail instead of the function becoming a tool
  limit.  `R2E_1` (document-order classification): new clause "the class belongs to a message element that is
  present" and two-element documents in both orders in the bounded check.  Scenarios added: adjacent items without
  paragraphs, the *last* story addressed with the same item IDs in an earlier story, IDs living only in other
  stories, roReplace among sorted `MosFile` objects, nested `<p>`, ISO-8859-1 / UTF-16 S3 objects, upper-case
  suffixes, a path listed twice.  Five changes were at first caught by the bounded check alone although every
  obligation was discharged - a sign of a contract that is too weak or attributed to the wrong property:
  `RunningOrder.__add__` now also serves C14, `RunningOrderReplace.merge` C01/C02, the classification clauses
  C07 (round trip of a completed running order) and C20, and `MosFile.__str__` has the clause
  `every_carriage_return_is_written_as_a_character_reference`.
* Round 3 (23 of 24 caught at first; 15 of them by failed obligations, 9 as tool limits).  The miss, `R3D_1`
  (`Item.note` taken from the first `studioCommand`), was a tool limit (ElementPath predicate) without a scenario:
  items with several studioCommands added.  `R3C_4` showed that the read accessors of `MosCollection`
  (`completed`, `ro`, `mos_readers`, `__str__`) and `completed` of message objects were not under contract: added
  (`contracts/collection_props.py`).  Scenarios added where the first catch was by obligation only: roReadyToAir
  after the roDelete in a collection, S3 keys whose byte order is not the message-id order, stories timed by
  exactly one of TextTime / MediaTime in merges, `MosCollection.completed` before / after / after an aborted merge.

* Round 4 (17 of 20 caught at first; 11 by failed obligations, 9 as tool limits).  The three misses were tool
  limits (slice assignment, a new helper loop, `ElementTree(...).write`) without a scenario in the stand-in: a
  roStorySend with an empty / whitespace-only `storyBody` (`R4A_3`); a running order that itself holds a story or
  item with a blank ID, against blank / unknown / existing references of every message kind (`R4B_3`: a blank
  reference must never resolve to it); a carriage return in the merged text written with `-o` (`R4D_4`).
  `R4C_1` (`from_string` strips the text first) failed 278 obligations but had no concrete input at first:
  documents with white space, BOM, NBSP and blank lines before / after the root or the XML declaration added.
* Round 5 (20 changes; every one was caught at first by at least one of the checks its author named, 14 of 20
  by the check of the *main* property; in the end 14 by failed obligations, 4 as tool limits, 2 - `R5A_1` under C01 and
  `R5B_2` under C13 - by the bounded check alone because the changed function, `MosElement.id` / `MosReader.from_string`,
  is not among the functions those two checks verify: its obligations fail in the C12 / C18 check instead).  The six that the check of the main
  property let through at first, and what was done: `R5D_4` / `R5C_1` (`MosReader.mos_object` remembers the restored object,
  so two collections built from the same readers share one running order): caught under C13 / C18 only, because
  the body proof of `mos_object` started from a hand-built reader without the new field (an `AttributeError` path
  tagged C18).  The entry state now also carries every field the real `MosReader.__init__` initialises to `None`,
  the contract got the clauses `reader_keeps_no_reference_to_the_restored_object` and
  `restoring_changes_no_field_of_the_reader`, and all its clauses carry C09, C13 and C18 - both changes now fail
  those two clauses in the C09 check.  `R5D_3` (`RunningOrderReplace.inspect` raises on an element without text, so
  `mosromgr inspect` aborts): caught under C20 only; the CLI proof uses the caller-facing view of `inspect()`
  ("prints, never raises"), so the never-raises obligations of the 25 `inspect` bodies now carry C19 and are part
  of the C19 check; the stand-in got a roReplace written without white space and with an empty element.  `R5B_4` (`ItemDelete.merge` resolves first and removes afterwards; a repeated ID raises
  `ValueError`, later IDs are never acted on): a tool limit (new loop); the stand-in reported the escaping
  built-in exception under C12 / C05 only - it now also reports it under C06 (named elements not acted on, nothing
  the library defines reported it).  `R5A_3` (`MetaDataReplace.merge` copies only the text of a childless target):
  a tool limit (write to `Element.text`) without a scenario; carried metadata with attributes / children replacing
  a text-only element, and empty elements replacing full ones, added to the stand-in.  `R5B_3` (two sites: `find_child` compares stripped IDs, `EAItemSwap` tests ID equality instead of node identity)
  failed an obligation but had no input: references that differ from an ID only by white space added to the merge
  scenarios.  `R5B_2` (`MosReader.from_string`
  keeps the parsed object in a closure) and `R5C_3` (strict `MosCollection.merge` re-raises a new `MosMergeError`,
  so a completed running order no longer surfaces as `MosCompletedMergeError`) looked caught under C13 / C07 in the
  first, heavily parallel batch - by one solver time-out each, not by a real failure (a warning about verdicts under
  overload: five checks, 80 solver processes on 16 cores).  Now: two collections built from one reader list
  (`from_string` and `from_file`) are part of the C13 histories, and `MosCollection.merge` has the clause
  `strict_mode_lets_the_error_class_of_the_failing_message_escape` (C07+C09: the exception leaving is the one
  `ro += mo` raised, or one of the same class raised from it); the C07 stand-in now also demands the exact class
  for a message behind the roDelete in a strict merge and for a second `merge()` of a completed collection.  `R5D_2` (`assert` instead of `raise` in `_validate`,
  wrong only under `python -O`) fails two obligations of `_validate` and is replayed by the stand-in, which already
  ran every construction under `-O` as well.  The 110 changes of rounds 1-4 were last re-run before this round's
  additions (which only add clauses, tags and scenarios; no clause or scenario was removed or weakened), not after.

| id | breaks | file | needs to manifest | caught by | deductive part alone |
|---|---|---|---|---|---|
%s

False-alarm tests.  (a) Ten hand-written semantics-preserving refactors (`tools/try_refactor.py
selftest/refactors/r*.py`): renamed locals, `replace_node` instead of remove+insert, a conditional expression for an
index adjustment, inverted nesting in `find_child`, swapped branches with `continue`, a counted instead of listed
check in `_validate`, separate `if`s in `_get_story_duration`, `list(parent).index(node)`, `Element.insert` instead
of `insert_node`: every check stays at exit 0 and every function stays *proved*.  (b) 24 behaviour-preserving
refactors written by four further sub-agents (`refactors/RF?_n/`: patch.diff, the author's argument and a
differential test whose digest is equal with and without the change), run by `tools/try_refactor_par.py` against the
quick check of *every* property that depends on a changed function (between 3 and 15 checks per refactor):
**no check raised an alarm**.  On the first run 8 of the 24 lost the proof of a function (tool limit, the bounded
check decided, exit 0): three bindings were still by local-variable name (`t` / `story_offsets` in
`_get_story_offsets`, `files` in `get_mos_files`, the `enumerate(..., start=)` form of the replace loops) and are
now by role (`contracts/roles.py`: the one int / number / dict / list local the loop modifies; hand-kept counters
get the invariant `counter_follows_the_iteration`); comprehensions written out as `acc = []; for x in xs: [if c:
continue] acc.append(e)` created loops without an invariant - such *accumulator loops* are now executed as the
comprehension they spell (engine, `Executor.accumulator_loop`; only when the accumulator is initialised empty just
before the loop, the body is straight-line with pure temporaries and the loop variable is not read afterwards).
After that, on the second run (209 check runs over the 24 refactors), no check raises an alarm and 23 of the 24
keep every function proved; `RFC_5` (a loop with `extend` instead of `chain.from_iterable` in `RunningOrder.script`) stays a
tool limit in three checks.  (c) A second set of 24 refactors of other kinds (`refactors/RG?_n/`: extracted helper functions and methods, inlined
helpers and properties, reordered independent statements, changed log / message formatting, named constants for tag
names, tuple indexing instead of unpacking, positional instead of keyword arguments): 232 check runs, **no alarm**.
On the first run 10 of them lost proofs, all for two reasons that are now handled by the engine: module-level named
constants (`_STORY_TAG = 'story'`) are resolved to their value when the name is bound exactly once, and message texts
built with `str.format` / `%%` are opaque strings like f-strings (`'{}ID'.format(tag)`, `'%%sID' %% tag` and
`tag + 'ID'` are the ID-tag name like `f'{tag}ID'`); re-run afterwards, those ten (and the three of the first set that had
lost proofs) pass 128 check runs with every function proved.  What remains out of reach by design: a refactor that
introduces a genuinely new loop or moves a loop that carries an invariant into a new helper function (`RGB_4`,
`RGD_6`; `extend` in a loop instead of `chain.from_iterable`, `RFC_5`) needs a new invariant / contract; the
function is then reported as a tool limit and decided by the bounded check only.
''' % (len(rows), nrow[1], nrow[2], nrow[3], nrow[4], nrow[5], len(rows), sum(1 for r in rows if 'failing input replayed' in r), sum(1 for r in rows if 'no failing input found' in r), '\n'.join(rows))
p = os.path.join(V, 'DESIGN.md')
s = open(p).read()
a = s.index('## 10. Seeded changes and which checks catch them')
b = s.index('## 11. False alarms met while building')
s = s[:a] + txt + '\n' + s[b:]
open(p, 'w').write(s)
print(len(rows), 'rows')
