#!/usr/bin/env python3
"""tools/try_refactor.py <refactor.py>... : apply a semantics-preserving edit to /repo, run tests and the listed checks, revert.
A VIOLATION here is a false alarm of the machinery."""
import sys, os, subprocess, runpy
V = os.path.dirname(os.path.dirname(os.path.abspath(__file__)))
def sh(c, **kw): return subprocess.run(c, shell=True, capture_output=True, text=True, **kw)
for path in sys.argv[1:]:
    m = runpy.run_path(path)
    assert sh('git -C /repo status --porcelain').stdout.strip() == ''
    p = '/repo/mosromgr/' + m['FILE']
    s = open(p).read(); s2 = m['mutate'](s); assert s2 != s
    open(p, 'w').write(s2)
    try:
        t = sh('/venv/bin/python -m pytest -q -p no:cacheprovider 2>&1 | tail -1', cwd='/repo').stdout.strip()
        print('== %s: %s [%s]' % (os.path.basename(path), m['DESC'], t), flush=True)
        for prop in m['PROPS']:
            c = sh('./check %s --quick' % prop, cwd=V)
            lines = [l for l in c.stdout.splitlines() if l.startswith(('VIOLATION', 'TOOL-LIMIT', 'checker'))]
            print('   %s exit=%d %s' % (prop, c.returncode, '; '.join(l[:160] for l in lines[:3])), flush=True)
    finally:
        sh('git -C /repo checkout -- .')
