#!/usr/bin/env python3
"""run every contract under several PYTHONHASHSEED values; report obligations that are not discharged (flaky proofs)"""
import subprocess, sys, os, re, json
from concurrent.futures import ThreadPoolExecutor
sys.path.insert(0, os.path.dirname(os.path.dirname(os.path.abspath(__file__))))
os.chdir(os.path.dirname(os.path.dirname(os.path.abspath(__file__))))
out = subprocess.run(['python3-vt', '-c', 'import sys; sys.path.insert(0,"."); from pyvc.main import load_contracts; R=load_contracts(); print("\\n".join(q for q,c in R.items() if not getattr(c,"assumed",False) and not getattr(c,"no_body",False) and getattr(c,"body_proved",True)))'], capture_output=True, text=True).stdout.split()
seeds = sys.argv[1:] or ['1', '2', '3', '4', '5']
def run(args):
    q, seed = args
    env = dict(os.environ, PYTHONHASHSEED=seed)
    p = subprocess.run(['python3-vt', '-m', 'pyvc.run1', q], capture_output=True, text=True, env=env)
    bad = []
    for line in p.stdout.splitlines():
        m = re.search(r' (\d+)/(\d+) ', line)
        if (m and m.group(1) != m.group(2)) or 'TOOL-LIMIT' in line or 'ENGINE-ERROR' in line:
            bad.append(line.strip()[:160])
    return q, seed, bad
tasks = [(q, s) for q in out for s in seeds]
with ThreadPoolExecutor(8) as ex:
    for q, seed, bad in ex.map(run, tasks):
        if bad:
            print('FLAKY seed=%s %s\n   %s' % (seed, q, '\n   '.join(bad)), flush=True)
print('done: %d functions x %d seeds' % (len(out), len(seeds)))
