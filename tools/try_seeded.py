#!/usr/bin/env python3
"""tools/try_seeded.py <dir with patch.diff [demo.py]> [props...] : apply the patch to /repo, confirm tests + demo, run the checks, revert.
Prints one line per property: CAUGHT / MISSED (with the VIOLATION lines)."""
import sys, os, subprocess, json
d = os.path.abspath(sys.argv[1])
props = sys.argv[2:]
V = os.path.dirname(os.path.dirname(os.path.abspath(__file__)))


def sh(cmd, **kw):
    return subprocess.run(cmd, shell=True, capture_output=True, text=True, **kw)


assert sh('git -C /repo status --porcelain').stdout.strip() == '', '/repo not clean'
demo = os.path.join(d, 'demo.py')
res = {'dir': d}
if os.path.exists(demo):
    res['demo_clean'] = sh('/venv/bin/python %s' % demo, cwd='/var/tmp').returncode
r = sh('git -C /repo apply %s' % os.path.join(d, 'patch.diff'))
if r.returncode != 0:
    print('PATCH DOES NOT APPLY', r.stderr)
    sys.exit(2)
try:
    t = sh('/venv/bin/python -m pytest -q -p no:cacheprovider 2>&1 | tail -1', cwd='/repo')
    res['tests'] = t.stdout.strip()
    if os.path.exists(demo):
        res['demo_patched'] = sh('/venv/bin/python %s' % demo, cwd='/var/tmp').returncode
    if not props:
        props = [c['property_id'] for c in json.load(open(os.path.join(V, 'MANIFEST.json')))['checks']]
    res['checks'] = {}
    for p in props:
        c = sh('./check %s --quick' % p, cwd=V)
        lines = [l for l in c.stdout.splitlines() if l.startswith(('VIOLATION', 'KNOWN', 'TOOL-LIMIT', 'checker', 'ENGINE'))]
        res['checks'][p] = {'exit': c.returncode, 'lines': lines[:6], 'summary': c.stdout.strip().splitlines()[-1] if c.stdout.strip() else ''}
        print('%s %s exit=%d %s' % ('CAUGHT' if c.returncode == 1 else ('MISSED' if c.returncode == 0 else 'ERROR'), p, c.returncode, '; '.join(lines[:3])[:300]), flush=True)
finally:
    sh('git -C /repo checkout -- .')
print(json.dumps({k: v for k, v in res.items() if k != 'checks'}))
json.dump(res, open(os.path.join(d, 'check_result.json'), 'w'), indent=1)
