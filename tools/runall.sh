#!/bin/bash
# run every claimed check (quick) and summarise
cd "$(dirname "$0")/.."
for p in $(python3 -c "import json; print(' '.join(c['property_id'] for c in json.load(open('MANIFEST.json'))['checks']))"); do
  ./check $p --${1:-quick} | grep -v "^TOOL" | tail -2
done
