#!/usr/bin/env python3
"""tools/try_seeded_par.py [-j N] <dir>:<props,comma> ... : like try_seeded.py but on scratch copies of /repo's HEAD
(MOSROMGR_SRC), several changes at a time; /repo is not touched and the evidence of /repo is not overwritten.
Writes <dir>/check_result.json and prints one line per (change, property)."""
import sys, os, subprocess, json, shutil, tempfile
from concurrent.futures import ThreadPoolExecutor
V = os.path.dirname(os.path.dirname(os.path.abspath(__file__)))
args = sys.argv[1:]
J = 4
if args and args[0] == '-j':
    J = int(args[1]); args = args[2:]


def sh(cmd, **kw):
    return subprocess.run(cmd, shell=True, capture_output=True, text=True, **kw)


def one(spec):
    d, props = spec.split(':')
    d = os.path.abspath(d)
    props = props.split(',')
    wk = tempfile.mkdtemp(prefix='wk.', dir='/var/tmp')
    res = {'dir': d, 'mode': 'scratch copy of /repo HEAD (MOSROMGR_SRC)'}
    try:
        sh('git -C /repo archive HEAD | tar -x -C %s' % wk)
        env = dict(os.environ, PYTHONPATH=wk, MOSROMGR_SRC=wk, PYVC_EVIDENCE_DIR=os.path.join(wk, '_evidence'))
        demo = os.path.join(d, 'demo.py')
        if os.path.exists(demo):
            res['demo_clean'] = sh('/venv/bin/python %s' % demo, cwd='/var/tmp', env=env).returncode
        r = sh('patch -p1 -s < %s' % os.path.join(d, 'patch.diff'), cwd=wk)
        if r.returncode != 0:
            print('PATCH DOES NOT APPLY', d, r.stdout, r.stderr)
            return
        res['tests'] = sh('/venv/bin/python -m pytest -q -p no:cacheprovider 2>&1 | tail -1', cwd=wk, env=env).stdout.strip()
        if os.path.exists(demo):
            res['demo_patched'] = sh('/venv/bin/python %s' % demo, cwd='/var/tmp', env=env).returncode
        res['checks'] = {}
        for p in props:
            c = sh('./check %s --quick' % p, cwd=V, env=env)
            lines = [l for l in c.stdout.splitlines() if l.startswith(('VIOLATION', 'KNOWN', 'TOOL-LIMIT', 'checker', 'ENGINE'))]
            res['checks'][p] = {'exit': c.returncode, 'lines': lines[:6], 'summary': c.stdout.strip().splitlines()[-1] if c.stdout.strip() else ''}
            print('%s %s %s exit=%d %s' % (os.path.basename(d), 'CAUGHT' if c.returncode == 1 else ('MISSED' if c.returncode == 0 else 'ERROR'), p,
                                           c.returncode, '; '.join(lines[:3])[:260]), flush=True)
        print(os.path.basename(d), json.dumps({k: v for k, v in res.items() if k != 'checks'}), flush=True)
        json.dump(res, open(os.path.join(d, 'check_result.json'), 'w'), indent=1)
    finally:
        shutil.rmtree(wk, ignore_errors=True)


with ThreadPoolExecutor(J) as ex:
    list(ex.map(one, args))
