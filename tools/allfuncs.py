#!/usr/bin/env python3
"""verify every contract once (parallel) and list anything not discharged"""
import subprocess, sys, os, re
from concurrent.futures import ThreadPoolExecutor
V = os.path.dirname(os.path.dirname(os.path.abspath(__file__)))
os.chdir(V)
fns = subprocess.run(['python3-vt', '-c', 'import sys; sys.path.insert(0,"."); from pyvc.main import load_contracts; R=load_contracts(); print("\\n".join(q for q,c in R.items() if not getattr(c,"assumed",False) and not getattr(c,"no_body",False) and getattr(c,"body_proved",True)))'], capture_output=True, text=True).stdout.split()
def run(q):
    p = subprocess.run(['python3-vt', '-m', 'pyvc.run1', q], capture_output=True, text=True, env=dict(os.environ, PYTHONHASHSEED='0'))
    bad = []
    tot = 0
    for line in p.stdout.splitlines():
        m = re.search(r' (\d+)/(\d+) ', line)
        if (m and m.group(1) != m.group(2)) or 'TOOL-LIMIT' in line or 'ENGINE-ERROR' in line:
            bad.append(line.strip()[:170])
        m2 = re.search(r': (\d+) obligations', line)
        if m2: tot = int(m2.group(1))
    return q, bad, tot
total = 0
with ThreadPoolExecutor(12) as ex:
    for q, bad, tot in ex.map(run, fns):
        total += tot
        if bad: print(q, '\n   ' + '\n   '.join(bad), flush=True)
print('done: %d functions, %d obligations' % (len(fns), total))
