#!/usr/bin/env python3
"""list the obligations that are NOT discharged by the first (plain e-matching) solver attempt, i.e. that depend on the MBQI /
reseeded retries of pyvc.solve.discharge: these are the proofs that can flip under load or after harmless edits.  One fresh
process per function (tools/ematch_only.py)."""
import subprocess, sys, os
from concurrent.futures import ThreadPoolExecutor
V = os.path.dirname(os.path.dirname(os.path.abspath(__file__)))
os.chdir(V)
fns = subprocess.run(['python3-vt', '-c', 'import sys; sys.path.insert(0,"."); from pyvc.main import load_contracts; R=load_contracts(); print("\\n".join(q for q,c in R.items() if not getattr(c,"assumed",False) and not getattr(c,"no_body",False) and getattr(c,"body_proved",True)))'], capture_output=True, text=True).stdout.split()
def run(q):
    p = subprocess.run(['python3-vt', 'tools/ematch_only.py', q], capture_output=True, text=True, env=dict(os.environ, PYTHONHASHSEED='0'))
    return p.stdout
n = 0
with ThreadPoolExecutor(int(sys.argv[1]) if len(sys.argv) > 1 else 12) as ex:
    for out in ex.map(run, fns):
        lines = out.strip().splitlines()
        if not lines or not lines[0].rstrip().endswith(': 0'):
            print(out.strip()[:3000], flush=True)
            n += max(0, len(lines) - 1)
print('done: %d functions, %d fragile obligations' % (len(fns), n))
