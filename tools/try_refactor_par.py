#!/usr/bin/env python3
"""tools/try_refactor_par.py [-j N] <dir with patch.diff>... : behaviour-preserving refactors as false-alarm tests.
Scratch copy of /repo HEAD + patch (MOSROMGR_SRC); the test suite must pass; the functions whose source text changed are
computed, and the quick check of every property that depends on one of them (function under contract, inlined function or
used callee contract, from evidence/*.json) is run.  exit 1 of a check = FALSE ALARM; a TOOL-LIMIT line = no longer proved
(degraded to the bounded check), not an alarm.  Writes <dir>/refactor_result.json."""
import sys, os, subprocess, json, shutil, tempfile, glob
from concurrent.futures import ThreadPoolExecutor
V = os.path.dirname(os.path.dirname(os.path.abspath(__file__)))
args = sys.argv[1:]
J = 3
if args and args[0] == '-j':
    J = int(args[1]); args = args[2:]


def sh(cmd, **kw):
    return subprocess.run(cmd, shell=True, capture_output=True, text=True, **kw)


DEP = {}
for f in glob.glob(os.path.join(V, 'evidence', 'C*.json')):
    e = json.load(open(f))
    s = set()
    for fn in e['coverage']['functions_under_contract']:
        s.add(fn['function']); s.update(fn.get('inlined_transparent') or []); s.update(fn.get('callee_contracts_used') or [])
    DEP[e['property_id']] = s

FUNCS = r'''
import sys, json
sys.path.insert(0, %r)
from pyvc.extract import Repo
r = Repo()
print(json.dumps({q: f.src for q, f in r.functions.items()}))
''' % V


def sources(src):
    p = subprocess.run(['python3-vt', '-c', FUNCS], capture_output=True, text=True, env=dict(os.environ, MOSROMGR_SRC=src))
    return json.loads(p.stdout)


def one(d):
    d = os.path.abspath(d)
    wk = tempfile.mkdtemp(prefix='wkr.', dir='/var/tmp')
    res = {'dir': d}
    try:
        sh('git -C /repo archive HEAD | tar -x -C %s' % wk)
        before = sources(wk)
        r = sh('patch -p1 -s < %s' % os.path.join(d, 'patch.diff'), cwd=wk)
        if r.returncode != 0:
            print('PATCH DOES NOT APPLY', d, r.stdout, r.stderr); return
        after = sources(wk)
        changed = sorted(q for q in set(before) | set(after) if before.get(q) != after.get(q))
        env = dict(os.environ, PYTHONPATH=wk, MOSROMGR_SRC=wk, PYVC_EVIDENCE_DIR=os.path.join(wk, '_evidence'))
        res['tests'] = sh('/venv/bin/python -m pytest -q -p no:cacheprovider 2>&1 | tail -1', cwd=wk, env=env).stdout.strip()
        props = sorted(p for p, s in DEP.items() if s & set(changed))
        res['changed_functions'] = changed
        res['checks'] = {}
        name = os.path.basename(d)
        print('%s changed %s -> checks %s [%s]' % (name, changed, props, res['tests']), flush=True)
        for p in props:
            c = sh('./check %s --quick' % p, cwd=V, env=env)
            lines = [l for l in c.stdout.splitlines() if l.startswith(('VIOLATION', 'KNOWN', 'TOOL-LIMIT', 'checker', 'ENGINE'))]
            res['checks'][p] = {'exit': c.returncode, 'lines': lines[:6], 'summary': c.stdout.strip().splitlines()[-1] if c.stdout.strip() else ''}
            tag = 'FALSE-ALARM' if c.returncode == 1 else ('ok' if c.returncode == 0 else 'ERROR')
            if c.returncode == 0 and any(l.startswith('TOOL-LIMIT') for l in lines):
                tag = 'ok(not proved: tool limit)'
            print('%s %s %s %s' % (name, tag, p, '; '.join(lines[:3])[:260]), flush=True)
        json.dump(res, open(os.path.join(d, 'refactor_result.json'), 'w'), indent=1)
    finally:
        shutil.rmtree(wk, ignore_errors=True)


with ThreadPoolExecutor(J) as ex:
    list(ex.map(one, args))
