/-
C10, last step (code-independent mathematics): two arrangements of the same finite
multiset of message ids that are both strictly ascending are the same list.  Hence the
reader list produced by `sorted` (a permutation of the inputs without adjacent
inversion, A-SORT; ids distinct) does not depend on the order in which the inputs
were supplied.  Everything about the code is proved by pyvc; this file is only the
induction that an SMT solver will not do.
-/
import Mathlib.Data.List.Sort

theorem ascending_perm_unique (l₁ l₂ : List ℤ)
    (h₁ : l₁.Pairwise (· < ·)) (h₂ : l₂.Pairwise (· < ·)) (hp : l₁.Perm l₂) : l₁ = l₂ :=
  hp.eq_of_pairwise' h₁ h₂

/-- no adjacent inversion + distinct neighbours = strictly ascending chain (what A-SORT gives) -/
theorem chain_lt_of_le_ne (l : List ℤ) (h : l.IsChain (· ≤ ·)) (hd : l.Nodup) : l.Pairwise (· < ·) := by
  have hp : l.Pairwise (· ≤ ·) := List.isChain_iff_pairwise.mp h
  have hn : l.Pairwise (· ≠ ·) := hd
  exact (hp.and hn).imp (fun ⟨a, b⟩ => lt_of_le_of_ne a b)

#print axioms ascending_perm_unique
